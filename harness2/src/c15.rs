//! C15 — simulator leg (run `c15_e2e`): bytes on the wire towards a client address that the server has not validated yet.
//!
//! A real dquic client connects to a real server through an adversary that shapes the START of the connection:
//!   * client datagrams carrying only Initial packets are cut to the end of their last complete packet (the client pads the
//!     DATAGRAM with zeros behind a ~280-byte Initial packet, so the cut datagram is still a valid Initial — an on-path or
//!     spoofing sender can do the same), or cut in between, or left as sent, or extended with trailing zeros to 1201..1500;
//!   * optionally a 40-byte garbage datagram from the client's address comes first;
//!   * lossy start (the first datagrams of either direction dropped with some probability) ⇒ retransmitted server flights;
//!   * optionally the client's Handshake packets are withheld for a while (the address stays unvalidated longer).
//! Monitor, independent of any model, evaluated on the wire log at EVERY server send before validation:
//!     bytes the server put on the wire towards the client address  ≤  3 × bytes delivered to the server from that address
//! "validated" = the first datagram from the client that contains a complete Handshake packet has been delivered to the
//! server (RFC 9000 §8.1; the server grants on processing it).  Everything delivered counts as received, garbage included
//! (upper bound of what RFC 9000 §8.1 lets the server count), so a reported excess is a real one.
//! Signatures are those of known_findings/C15.json: `amplification:initial_padding` (the excess is an Initial-bearing datagram
//! padded to the MTU), `amplification:multi_segment` (excess by a later datagram of one burst = same instant),
//! `amplification:close` (the server's trace shows a CONNECTION_CLOSE at that instant), else `amplification:unclassified`.
//! Transcript: `amp <shape…> => rcvd=<b> sent=<b> worst=<sent>/<3·rcvd> validated_at=<µs|never> complete=<0|1>`.
use std::{net::SocketAddr, time::Duration};

use tokio::io::{AsyncReadExt, AsyncWriteExt};

use crate::{
    common::{Opts, Rng, Sink},
    sim::{self, Adversary, Delivery, Dgram, PacketTap, Pair, PairCfg, WireLog, CLIENT_ADDR, SERVER_ADDR},
};

pub const RUNS: &[(&str, fn(&Opts))] = &[("c15_e2e", run)];

fn varint(d: &[u8], pos: usize) -> Option<(u64, usize)> {
    let b = *d.get(pos)?;
    let n = 1usize << (b >> 6);
    if pos + n > d.len() { return None }
    let mut v = (b & 0x3f) as u64;
    for k in 1..n { v = (v << 8) | d[pos + k] as u64 }
    Some((v, n))
}

/// (type 0=Initial 2=Handshake 1=0RTT 3=Retry 4=short, start, end) of the complete packets of a datagram
pub fn packets(d: &[u8]) -> Vec<(u8, usize, usize)> {
    let mut out = vec![];
    let mut pos = 0;
    while pos < d.len() {
        let b = d[pos];
        if b & 0x80 == 0 {
            if b & 0x40 != 0 { out.push((4, pos, d.len())) }
            break;
        }
        let ty = (b >> 4) & 3;
        let mut p = pos + 5;
        let Some(&dl) = d.get(p) else { break };
        p += 1 + dl as usize;
        let Some(&sl) = d.get(p) else { break };
        p += 1 + sl as usize;
        if ty == 3 { out.push((3, pos, d.len())); break }
        if ty == 0 {
            let Some((tl, n)) = varint(d, p) else { break };
            p += n + tl as usize;
        }
        let Some((len, n)) = varint(d, p) else { break };
        p += n;
        let end = p + len as usize;
        if end > d.len() { break }
        out.push((ty, pos, end));
        pos = end;
    }
    out
}

#[derive(Clone, Debug)]
struct Shape {
    /// 0 as sent, 1 cut to the last complete packet, 2 cut in between, 3 extended to `ext`
    initial_mode: u8,
    ext: usize,
    garbage_first: bool,
    loss: u64,
    loss_window: u64,
    hold_handshake: Duration,
    payload: usize,
}

struct StartAdv {
    rng: Rng,
    s: Shape,
    client: SocketAddr,
    seen_client: bool,
}

impl Adversary for StartAdv {
    fn on_send(&mut self, idx: u64, _now: Duration, d: &Dgram, log: &mut WireLog) -> Vec<Delivery> {
        let mut out = vec![];
        if idx < self.s.loss_window && self.rng.below(1000) < self.s.loss {
            log.bump("drop");
            return out;
        }
        if d.src != self.client {
            return vec![Delivery { extra: Duration::ZERO, dgram: d.clone(), genuine: true }];
        }
        if !self.seen_client && self.s.garbage_first {
            log.bump("garbage_first");
            out.push(Delivery { extra: Duration::ZERO, dgram: Dgram { data: self.rng.bytes(40), ..d.clone() }, genuine: false });
        }
        self.seen_client = true;
        let pk = packets(&d.data);
        let only_initial = !pk.is_empty() && pk.iter().all(|p| p.0 == 0);
        let has_hs = pk.iter().any(|p| p.0 == 2);
        let mut dg = d.clone();
        if only_initial {
            let end = pk.last().unwrap().2;
            match self.s.initial_mode {
                1 => { dg.data.truncate(end); log.bump("initial_cut_to_packet") }
                2 => { let k = self.rng.range(end as u64, d.data.len().max(end) as u64) as usize; dg.data.truncate(k); log.bump("initial_cut_between") }
                3 => { if dg.data.len() < self.s.ext { dg.data.resize(self.s.ext, 0) }; log.bump("initial_extended") }
                _ => {}
            }
        }
        let extra = if has_hs { self.s.hold_handshake } else { Duration::ZERO };
        out.push(Delivery { extra, dgram: dg, genuine: false });
        out
    }
}

struct Out {
    complete: bool,
}

async fn case(shape: Shape, adv_rng: Rng, tap: std::sync::Arc<PacketTap>) -> (Out, Vec<sim::WireRec>, Vec<sim::WireRec>, tokio::time::Instant) {
    let client: SocketAddr = CLIENT_ADDR.parse().unwrap();
    let pair = Pair::build(Box::new(StartAdv { rng: adv_rng, s: shape.clone(), client, seen_client: false }), PairCfg::default().with_qlog(tap).idle_timeout(Duration::from_secs(8))).await;
    pair.net.record(true);
    let listeners = pair.listeners.clone();
    let n = shape.payload;
    tokio::spawn(async move {
        while let Ok((c, ..)) = listeners.accept().await {
            tokio::spawn(async move {
                while let Ok((_sid, (mut r, mut w))) = c.accept_bi_stream().await {
                    tokio::spawn(async move {
                        let mut b = vec![];
                        let _ = r.read_to_end(&mut b).await;
                        let _ = AsyncWriteExt::write_all(&mut w, &b).await;
                        let _ = w.shutdown().await;
                    });
                }
            });
        }
    });
    let mut complete = false;
    let work = async {
        let Ok(cc) = pair.connect().await else { return };
        if let Ok(Some((_sid, (mut r, mut w)))) = cc.open_bi_stream().await {
            let data: Vec<u8> = (0..n).map(|i| (i * 7) as u8).collect();
            let _ = AsyncWriteExt::write_all(&mut w, &data).await;
            let _ = w.shutdown().await;
            let mut b = vec![];
            let _ = r.read_to_end(&mut b).await;
            complete = b == data;
        }
        let _ = cc.close("done", 0);
    };
    let _ = tokio::time::timeout(Duration::from_secs(20), work).await;
    tokio::time::sleep(Duration::from_millis(200)).await;
    let (s, d) = pair.net.with_log(|l| (l.sent.clone(), l.delivered.clone()));
    (Out { complete }, s, d, pair.net.start())
}

fn run(o: &Opts) {
    let mut sink = Sink::new_with_stats(&o.out, &o.stats);
    sink.set_hang_secs(200);
    let server: SocketAddr = SERVER_ADDR.parse().unwrap();
    let client: SocketAddr = CLIENT_ADDR.parse().unwrap();
    let ids: Vec<u64> = match o.only_case { Some(i) => vec![i], None => (0..o.cases).collect() };
    let seed = o.seed;
    for chunk in ids.chunks(6) {
        sink.pending(&format!("cases {chunk:?}"));
        let hs: Vec<_> = chunk.iter().map(|&id| std::thread::spawn(move || {
            let mut rng = Rng::new(seed ^ 0x15, id);
            let shape = Shape {
                initial_mode: *rng.pick(&[0u8, 0, 0, 3, 3, 2, 1]),
                ext: rng.range(1201, 1500) as usize,
                garbage_first: rng.chance(1, 3),
                loss: *rng.pick(&[0u64, 0, 200, 400]),
                loss_window: rng.range(4, 24),
                hold_handshake: Duration::from_millis(*rng.pick(&[0u64, 0, 300, 1500])),
                payload: *rng.pick(&[0usize, 100, 5000]),
            };
            let tap = PacketTap::new();
            let (s2, t2, adv) = (shape.clone(), tap.clone(), Rng::new(seed ^ 0xA15, id));
            let res = sim::run_case(id, Duration::from_secs(100), move || case(s2, adv, t2));
            (id, shape, res, tap.take())
        })).collect();
        for h in hs {
            let (id, shape, res, pk) = h.join().expect("case thread");
            sink.case(&id.to_string());
            for loc in &res.panics { sink.monitor_fail(&format!("panic:{loc}"), &format!("a task panicked at {loc} during connection start ({shape:?})")) }
            if res.wall_hang { sink.monitor_fail("hang:wall-clock", "case did not finish in 100 s real time") }
            let op = format!("amp init={} ext={} garbage={} loss={}/{} hold={}ms payload={}", shape.initial_mode, shape.ext, shape.garbage_first as u8, shape.loss, shape.loss_window, shape.hold_handshake.as_millis(), shape.payload);
            let Some((out, sent, delivered, net_start)) = res.result else { sink.line(&op, "no-result"); continue };
            sink.branch(&format!("initial_mode:{}", shape.initial_mode));
            sink.branch(&format!("loss:{}", shape.loss));
            sink.branch(&format!("hold:{}", shape.hold_handshake.as_millis()));
            // validation instant
            let t_valid = delivered.iter().filter(|r| r.src == client && r.dst == server && packets(&r.data).iter().any(|p| p.0 == 2)).map(|r| r.t_us).min();
            // merge: deliveries to the server (credit) before server sends of the same instant
            let mut evs: Vec<(u64, u8, &sim::WireRec)> = delivered.iter().filter(|r| r.src == client && r.dst == server).map(|r| (r.t_us, 0u8, r)).collect();
            evs.extend(sent.iter().filter(|r| r.src == server && r.dst == client).map(|r| (r.t_us, 1u8, r)));
            evs.sort_by_key(|e| (e.0, e.1));
            let (mut rcvd, mut snt) = (0u64, 0u64);
            let (mut pkt_credit, mut padded_past_credit) = (0i64, false);
            let mut worst = (0u64, 0u64);
            let mut last_send_t = u64::MAX;
            let mut reported = false;
            let mut n_server_before = 0;
            for (t, kind, r) in evs {
                if t_valid.is_some_and(|tv| t >= tv) { break }
                if kind == 0 {
                    rcvd += r.data.len() as u64;
                    if r.data.len() >= 1200 { pkt_credit += 3 * packets(&r.data).iter().map(|p| (p.2 - p.1) as i64).sum::<i64>() }
                    continue;
                }
                snt += r.data.len() as u64;
                if packets(&r.data).iter().any(|p| p.0 == 0) && r.data.len() >= 1200 && (r.data.len() as i64) > pkt_credit { padded_past_credit = true }
                pkt_credit -= r.data.len() as i64;
                n_server_before += 1;
                if snt * worst.1.max(1) > worst.0 * (3 * rcvd).max(1) || worst == (0, 0) { worst = (snt, 3 * rcvd) }
                if snt > 3 * rcvd && !reported {
                    reported = true;
                    let pkts = packets(&r.data);
                    let has_initial = pkts.iter().any(|p| p.0 == 0);
                    let close_now = pk.iter().any(|e| !e.rcvd && e.ep == "server" && e.at.checked_duration_since(net_start).is_some_and(|d| d.as_micros() as u64 == t) && e.frames.iter().any(|f| f == "connection_close"));
                    // the server credits 3 × the size of the PACKETS it processed (not of the datagrams); an Initial-bearing datagram
                    // padded to the MTU beyond that credit makes `fetch_sub` wrap, after which the server is unlimited
                    let cause = if close_now { "close" } else if padded_past_credit { "initial_padding" } else if last_send_t == t { "multi_segment" } else { "unclassified" };
                    sink.monitor_fail(&format!("amplification:{cause}"), &format!("live connection: at t={t}µs the server had put {snt} bytes on the wire towards the unvalidated client address after {rcvd} bytes were delivered from it (limit {}); the exceeding datagram: {} bytes, packets {:?} ({shape:?})", 3 * rcvd, r.data.len(), pkts.iter().map(|p| (p.0, p.2 - p.1)).collect::<Vec<_>>()));
                }
                last_send_t = t;
            }
            if n_server_before > 0 { sink.nontrivial() }
            sink.branch(if out.complete { "outcome:complete" } else { "outcome:incomplete" });
            sink.line(&op, &format!("rcvd={rcvd} sent={snt} worst={}/{} validated_at={} complete={}", worst.0, worst.1, t_valid.map(|t| t.to_string()).unwrap_or("never".into()), out.complete as u8));
        }
    }
    sink.finish(&o.stats, "non-trivial = the server sent at least one datagram before the client's address was validated");
}
