//! C02 — small-window / control-frame leg (run `c02_small`).
//!
//! The legs `c02_net` / `c02_inject` / `c02_wire` run with the handy parameters (1 MB windows, 100 streams) and ≤ 200 kB
//! per stream: no MAX_DATA / MAX_STREAM_DATA / MAX_STREAMS / *_BLOCKED frame is ever needed, so a regression in how window
//! updates are issued, retransmitted, re-ordered or applied is invisible to them (seeded change c02-2: a stale MAX_DATA
//! lowers the send limit).  This leg draws, from the case PRNG,
//!   * a PARAMETER profile per side (defaults, or small: initial_max_data 4–64 kB, initial_max_stream_data_* 2–32 kB,
//!     initial_max_streams_* 1–4, active_connection_id_limit 2–4, max_udp_payload_size 1200/1350, max_ack_delay 0…1 s,
//!     ack_delay_exponent 0…20, max_idle_timeout 5–30 s), recorded in the transcript (`wire params …`);
//!   * a WORKLOAD several times the windows (bulk streams of 3–16 × the connection window, slow readers) and/or more short
//!     streams than the stream-count limit (opening waits for MAX_STREAMS);
//!   * a FAULT profile aimed at control frames (`CtrlAdversary`, per direction): every k-th datagram held back until n later
//!     ones passed it (or a time bound), copies of old datagrams delivered long after, burst loss of small datagrams (the
//!     ACK / window-update carriers of a return path), burst loss of EXACTLY the datagrams whose 1-RTT packet carries a
//!     MAX_* frame (matched with the sender's own `packet_sent` log), asymmetric delay with jitter.  All faults stop (datagram-count and
//!     time window), so the bounded-fault liveness monitor applies: everything completes, byte-exact, within 120 s virtual.
//!
//! Monitors: C02's (integrity, panic, hang, close-by-network-fault, liveness:bounded-faults-incomplete — here split off:
//! liveness:bounded-faults-handshake-stalled when the server application was never handed the connection —, close-not-seen) and
//! the diagnosis `stall:flow-control:{conn,stream,streams}`: when a case does not complete, the endpoints' own qlog
//! (`sim::PacketTap`) is searched for a sender that stopped at a flow-control limit — bytes / streams sent vs. the last and
//! the largest MAX_DATA / MAX_STREAM_DATA / MAX_STREAMS it processed and the largest its peer says it sent.  No model is consulted.
//! `receive-path-blocked`: a datagram waited >= 1 s of virtual time in a socket's buffer before the interface's receive task read
//! it (`sim::SimIo::poll_recv`, count `rx_wait_max_ms`; healthy: 0 ms) — finding 5, docs/C02.md §10.  Every run ends with the fixed
//! `REGRESSION` cases (ids 1_000_000 + k), the (seed, case) pairs that exposed finding 5.
//! Transcript: `cfg`, `wire params …`, C02's application lines, `wire flow <ep> …`, `end`; the driver is C02's.
use std::{
    collections::{BTreeMap, HashMap},
    hash::{Hash, Hasher},
    time::Duration,
};

use dquic::prelude::*;

use crate::{
    common::{Opts, Rng, Sink},
    registry::c02::{self, Kind, Plan},
    sim::{self, Adversary, Delivery, Dgram, PacketTap, PairCfg, PktEv, WireLog},
};

pub const RUNS: &[(&str, fn(&Opts))] = &[("c02_small", run)];

// ---------------------------------------------------------------------------------------------
// parameter profiles
// ---------------------------------------------------------------------------------------------

#[derive(Clone, Debug)]
struct Side {
    small: bool,
    imd: u32,
    imsd_bl: u32,
    imsd_br: u32,
    imsd_uni: u32,
    ims_bi: u32,
    ims_uni: u32,
    acil: u32,
    /// max_udp_payload_size (None = default 65527)
    mups: Option<u32>,
    /// max_ack_delay in ms (None = default 25)
    mad: Option<u64>,
    /// ack_delay_exponent (None = default 3)
    ade: Option<u32>,
    idle_s: u64,
}

fn draw_side(rng: &mut Rng, small: bool) -> Side {
    if !small {
        // the handy parameters (what every other leg uses)
        return Side { small, imd: 1 << 20, imsd_bl: 1 << 20, imsd_br: 1 << 20, imsd_uni: 1 << 20, ims_bi: 100, ims_uni: 100, acil: 10, mups: None, mad: None, ade: None, idle_s: 10 };
    }
    let win = [2048u32, 3000, 4096, 8192, 16384, 32768];
    Side {
        small,
        imd: *rng.pick(&[4096u32, 6000, 8192, 16384, 32768, 65536]),
        imsd_bl: *rng.pick(&win),
        imsd_br: *rng.pick(&win),
        imsd_uni: *rng.pick(&win),
        ims_bi: rng.range(1, 4) as u32,
        ims_uni: rng.range(1, 4) as u32,
        acil: rng.range(2, 4) as u32,
        mups: *rng.pick(&[None, None, Some(1200u32), Some(1350)]),
        mad: *rng.pick(&[None, None, Some(0u64), Some(1), Some(200), Some(1000)]),
        ade: *rng.pick(&[None, None, Some(0u32), Some(1), Some(8), Some(20)]),
        idle_s: *rng.pick(&[5u64, 10, 30]),
    }
}

macro_rules! apply_side {
    ($p:expr, $s:expr) => {{
        let (p, s) = (&mut $p, &$s);
        for (id, v) in [
            (ParameterId::InitialMaxData, s.imd),
            (ParameterId::InitialMaxStreamDataBidiLocal, s.imsd_bl),
            (ParameterId::InitialMaxStreamDataBidiRemote, s.imsd_br),
            (ParameterId::InitialMaxStreamDataUni, s.imsd_uni),
            (ParameterId::InitialMaxStreamsBidi, s.ims_bi),
            (ParameterId::InitialMaxStreamsUni, s.ims_uni),
            (ParameterId::ActiveConnectionIdLimit, s.acil),
        ] {
            p.set(id, v).expect("param");
        }
        if let Some(v) = s.mups {
            p.set(ParameterId::MaxUdpPayloadSize, v).expect("mups");
        }
        if let Some(v) = s.mad {
            p.set(ParameterId::MaxAckDelay, Duration::from_millis(v)).expect("mad");
        }
        if let Some(v) = s.ade {
            p.set(ParameterId::AckDelayExponent, v).expect("ade");
        }
        p.set(ParameterId::MaxIdleTimeout, Duration::from_secs(s.idle_s)).expect("idle");
    }};
}

fn side_tokens(tag: &str, s: &Side) -> String {
    format!(
        "{tag}.small={} {tag}.imd={} {tag}.imsd_bl={} {tag}.imsd_br={} {tag}.imsd_uni={} {tag}.ims_bi={} {tag}.ims_uni={} {tag}.acil={} {tag}.mups={} {tag}.mad={} {tag}.ade={} {tag}.idle={}",
        s.small as u8,
        s.imd,
        s.imsd_bl,
        s.imsd_br,
        s.imsd_uni,
        s.ims_bi,
        s.ims_uni,
        s.acil,
        s.mups.map(|v| v.to_string()).unwrap_or("-".into()),
        s.mad.map(|v| v.to_string()).unwrap_or("-".into()),
        s.ade.map(|v| v.to_string()).unwrap_or("-".into()),
        s.idle_s
    )
}

// ---------------------------------------------------------------------------------------------
// workload: several times the windows, more streams than the limits
// ---------------------------------------------------------------------------------------------

fn plan_small(rng: &mut Rng, c: &Side, s: &Side, thorough: bool) -> (&'static str, Vec<Plan>) {
    // the window that limits a client→server transfer is the SERVER's, and vice versa; size against the smaller one so
    // that a case with one small side still needs many updates in at least one direction
    let conn_win = c.imd.min(s.imd) as u64;
    let cap: u64 = if thorough { 1_500_000 } else { 400_000 };
    let mode = *rng.pick(&["bulk", "bulk", "many", "mixed"]);
    let (mut nb, mut nc, mut ns) = (0u64, 0u64, 0u64);
    let mut v = vec![];
    let mut add = |rng: &mut Rng, kind: Kind, len: usize, bufs: &[usize], pause: u64| {
        let sid = match kind {
            Kind::BidiEcho => { nb += 1; (nb - 1) * 4 }
            Kind::UniC2S => { nc += 1; (nc - 1) * 4 + 2 }
            Kind::UniS2C => { ns += 1; (ns - 1) * 4 + 3 }
        };
        v.push(c02::plan_one(rng, kind, sid, len, bufs, pause));
    };
    let kinds = [Kind::BidiEcho, Kind::UniC2S, Kind::UniS2C];
    if mode == "bulk" || mode == "mixed" {
        let n = if mode == "bulk" { rng.range(1, 3) } else { 1 };
        for _ in 0..n {
            let kind = *rng.pick(&kinds);
            let len = (conn_win * rng.range(3, 16)).min(cap) / n + rng.below(1500);
            // a slow reader now and then: the sender then really sits at the limit and says so (*_BLOCKED)
            let pause = if rng.chance(1, 4) { *rng.pick(&[1u64, 5, 20]) } else { 0 };
            add(rng, kind, len as usize, &[256, 1500, 8192, 65536], pause);
        }
    }
    if mode == "many" || mode == "mixed" {
        let lim = c.ims_bi.min(c.ims_uni).min(s.ims_bi).min(s.ims_uni) as u64;
        let n = if lim >= 100 { rng.range(4, 12) } else { rng.range(lim + 2, lim * 3 + 8) };
        let stream_win = c.imsd_bl.min(c.imsd_br).min(c.imsd_uni).min(s.imsd_bl).min(s.imsd_br).min(s.imsd_uni) as u64;
        for _ in 0..n {
            let kind = *rng.pick(&kinds);
            let len = match rng.below(5) {
                0 => 0,
                1 => rng.range(1, 100),
                2 => rng.range(100, 3000),
                3 => rng.range(1, (stream_win * 2).min(40_000)),
                _ => rng.range(1, 1500),
            };
            add(rng, kind, len as usize, &[1, 100, 1500, 8192], 0);
        }
    }
    (mode, v)
}

// ---------------------------------------------------------------------------------------------
// the control-frame adversary
// ---------------------------------------------------------------------------------------------

#[derive(Clone, Debug, Default)]
struct DirFaults {
    /// every `hold_every`-th datagram of the direction is held back (0 = never) …
    hold_every: u64,
    /// … until this many later datagrams of the same direction passed it …
    hold_pass: u64,
    /// … or this long, whichever comes first
    hold_max_ms: u64,
    /// per mille: a copy of the datagram is delivered again 50…`late_dup_ms` ms later (stale control frames)
    late_dup: u64,
    late_dup_ms: u64,
    /// per mille: a SMALL datagram (< 200 bytes: ACK / window update / *_BLOCKED carriers) starts a loss burst over the next
    /// 1…`burst_len` small datagrams of the direction
    small_burst: u64,
    burst_len: u64,
    /// per mille: a datagram that CARRIES A WINDOW UPDATE (a 1-RTT packet with a MAX_DATA / MAX_STREAM_DATA / MAX_STREAMS frame,
    /// known from the sender's own `packet_sent` log — the adversary cannot decrypt, the harness can correlate) starts a loss
    /// burst over the next 1…`burst_len` update-carrying datagrams of the direction
    update_burst: u64,
    /// constant extra one-way delay (kept for the whole connection: a property of the path, not a fault) and jitter (a fault)
    delay_ms: u64,
    jitter_ms: u64,
}

#[derive(Clone, Debug, Default)]
struct CtrlProfile {
    name: &'static str,
    /// index 0 = client→server, 1 = server→client
    dir: [DirFaults; 2],
    /// faults apply while datagram index < `window_idx` AND virtual time < `window_ms`
    window_idx: u64,
    window_ms: u64,
}

fn draw_profile(rng: &mut Rng) -> CtrlProfile {
    let hold = |rng: &mut Rng| DirFaults { hold_every: rng.range(2, 8), hold_pass: *rng.pick(&[1u64, 2, 4, 8, 16]), hold_max_ms: *rng.pick(&[20u64, 60, 150, 300]), ..Default::default() };
    let dup = |rng: &mut Rng| DirFaults { late_dup: rng.range(100, 300), late_dup_ms: *rng.pick(&[100u64, 500, 3000]), ..Default::default() };
    let burst = |rng: &mut Rng| DirFaults { small_burst: rng.range(100, 400), burst_len: rng.range(1, 5), ..Default::default() };
    let none = DirFaults::default;
    let (name, dir) = match rng.below(12) {
        0 => ("clean", [none(), none()]),
        1 => ("hold-s2c", [none(), hold(rng)]),
        2 => ("hold-c2s", [hold(rng), none()]),
        3 => ("hold-both", [hold(rng), hold(rng)]),
        4 => ("stale-dup", [dup(rng), dup(rng)]),
        5 => ("ctrl-burst-loss", [burst(rng), burst(rng)]),
        9 | 10 => {
            let upd = |rng: &mut Rng| DirFaults { update_burst: rng.range(200, 700), burst_len: rng.range(1, 4), ..Default::default() };
            ("update-burst-loss", [upd(rng), upd(rng)])
        }
        6 => {
            let mut d = [none(), none()];
            let k = rng.below(2) as usize;
            d[k].delay_ms = rng.range(20, 150);
            d[k].jitter_ms = rng.range(0, 30);
            d[1 - k].jitter_ms = rng.range(0, 10);
            ("asym-delay", d)
        }
        _ => {
            let mut d = [hold(rng), hold(rng)];
            for x in d.iter_mut() {
                x.late_dup = rng.range(0, 150);
                x.late_dup_ms = *rng.pick(&[100u64, 500, 3000]);
                x.small_burst = rng.range(0, 150);
                x.update_burst = rng.range(0, 300);
                x.burst_len = rng.range(1, 3);
                x.jitter_ms = rng.range(0, 10);
            }
            d[rng.below(2) as usize].delay_ms = rng.range(0, 60);
            ("combo", d)
        }
    };
    CtrlProfile { name, dir, window_idx: *rng.pick(&[150u64, 400, 1000, 3000]), window_ms: *rng.pick(&[2000u64, 8000, 20000]) }
}

fn key_of(d: &Dgram) -> u64 {
    let mut h = std::collections::hash_map::DefaultHasher::new();
    d.dst.hash(&mut h);
    d.data.hash(&mut h);
    h.finish()
}

struct Held {
    key: u64,
    d: Dgram,
    left: u64,
}

struct CtrlAdversary {
    rng: Rng,
    p: CtrlProfile,
    server: std::net::SocketAddr,
    n: [u64; 2],
    held: [Vec<Held>; 2],
    burst_left: [u64; 2],
    upd_burst_left: [u64; 2],
    /// the endpoints' packet log and how far each direction has been matched against the datagrams seen
    tap: std::sync::Arc<PacketTap>,
    tap_pos: [usize; 2],
    /// timed copies to withdraw because the held datagram was released early
    cancel: HashMap<u64, u32>,
}

impl CtrlAdversary {
    fn new(rng: Rng, p: CtrlProfile, tap: std::sync::Arc<PacketTap>) -> Self {
        CtrlAdversary { rng, p, server: sim::SERVER_ADDR.parse().unwrap(), n: [0; 2], held: [vec![], vec![]], burst_left: [0; 2], upd_burst_left: [0; 2], tap, tap_pos: [0; 2], cancel: HashMap::new() }
    }
    /// Does the datagram `d` of direction `k` carry a window update?  A short-header datagram is matched with the next
    /// unmatched 1-RTT `packet_sent` event of its sender (one 1-RTT packet per datagram; long-header datagrams are the
    /// handshake and carry none).
    fn carries_update(&mut self, k: usize, d: &Dgram) -> bool {
        if d.data.first().is_none_or(|b| b & 0x80 != 0) {
            return false;
        }
        let ep = if k == 0 { "client" } else { "server" };
        let mut found: Option<(usize, bool)> = None;
        self.tap.scan_from(self.tap_pos[k], |i, e| {
            if found.is_none() && !e.rcvd && e.ep == ep && e.ty == "1RTT" {
                found = Some((i, e.frames.iter().any(|f| f.starts_with("max_"))));
            }
        });
        match found {
            Some((i, upd)) => {
                self.tap_pos[k] = i + 1;
                upd
            }
            None => false,
        }
    }
    fn dir_of(&self, d: &Dgram) -> usize {
        if d.dst == self.server { 0 } else { 1 }
    }
}

impl Adversary for CtrlAdversary {
    fn on_send(&mut self, idx: u64, now: Duration, d: &Dgram, log: &mut WireLog) -> Vec<Delivery> {
        let k = self.dir_of(d);
        let f = self.p.dir[k].clone();
        let active = idx < self.p.window_idx && (now.as_millis() as u64) < self.p.window_ms;
        let base = Duration::from_millis(f.delay_ms);
        let mut out = vec![];
        self.n[k] += 1;
        let mut passes = true;
        let upd = f.update_burst > 0 && self.carries_update(k, d);
        if active {
            if upd && (self.upd_burst_left[k] > 0 || self.rng.below(1000) < f.update_burst) {
                if self.upd_burst_left[k] > 0 {
                    self.upd_burst_left[k] -= 1;
                } else {
                    self.upd_burst_left[k] = self.rng.range(1, f.burst_len.max(1)) - 1;
                }
                log.bump("drop_update");
                passes = false;
            } else if d.data.len() < 200 && (self.burst_left[k] > 0 || self.rng.below(1000) < f.small_burst) {
                if self.burst_left[k] > 0 {
                    self.burst_left[k] -= 1;
                } else {
                    self.burst_left[k] = self.rng.range(1, f.burst_len.max(1)) - 1;
                }
                log.bump("drop_small");
                passes = false;
            } else if f.hold_every > 0 && self.n[k] % f.hold_every == 0 {
                log.bump("hold");
                let key = key_of(d);
                self.held[k].push(Held { key, d: d.clone(), left: f.hold_pass.max(1) });
                // the timed copy; withdrawn in `on_deliver` if the datagram was released by count before
                out.push(Delivery { extra: base + Duration::from_millis(f.hold_max_ms.max(1)), dgram: d.clone(), genuine: true });
                return out;
            }
        }
        if passes {
            let jitter = if active && f.jitter_ms > 0 { Duration::from_micros(self.rng.range(0, f.jitter_ms * 1000)) } else { Duration::ZERO };
            out.push(Delivery { extra: base + jitter, dgram: d.clone(), genuine: true });
            if active && self.rng.below(1000) < f.late_dup {
                log.bump("late_dup");
                out.push(Delivery { extra: base + Duration::from_millis(self.rng.range(50, f.late_dup_ms.max(51))), dgram: d.clone(), genuine: true });
            }
            // this datagram passed every held one of its direction
            let mut i = 0;
            while i < self.held[k].len() {
                self.held[k][i].left -= 1;
                if self.held[k][i].left == 0 {
                    let h = self.held[k].remove(i);
                    log.bump("released_by_count");
                    *self.cancel.entry(h.key).or_insert(0) += 1;
                    out.push(Delivery { extra: base, dgram: h.d, genuine: true });
                } else {
                    i += 1;
                }
            }
        }
        out
    }

    fn on_deliver(&mut self, _now: Duration, d: &Dgram, log: &mut WireLog) -> bool {
        if self.cancel.is_empty() && self.held[0].is_empty() && self.held[1].is_empty() {
            return true;
        }
        let key = key_of(d);
        if let Some(c) = self.cancel.get_mut(&key) {
            *c -= 1;
            if *c == 0 {
                self.cancel.remove(&key);
            }
            log.bump("timed_copy_withdrawn");
            return false;
        }
        let k = self.dir_of(d);
        if let Some(i) = self.held[k].iter().position(|h| h.key == key) {
            self.held[k].remove(i);
            log.bump("released_by_time");
        }
        true
    }
}

// ---------------------------------------------------------------------------------------------
// flow-control view of a case from the endpoints' own packet logs
// ---------------------------------------------------------------------------------------------

#[derive(Default, Debug)]
struct Flow {
    /// per stream: highest offset+length of a STREAM frame this endpoint sent
    hi: BTreeMap<u64, u64>,
    /// MAX_DATA values in the order this endpoint processed them
    md: Vec<u64>,
    /// MAX_STREAM_DATA values in processing order, keyed by the stream id AS LOGGED: the repo's qlog writes
    /// `StreamId::id()` (the per-type sequence number = wire id >> 2) for MAX_STREAM_DATA / STREAM_DATA_BLOCKED /
    /// RESET_STREAM / STOP_SENDING but the wire id for STREAM frames, so streams 4k, 4k+2 (client as sender) or
    /// 4k, 4k+3 (server as sender) share a key; `diagnose` only draws conclusions that hold whichever stream was meant
    msd: BTreeMap<u64, Vec<u64>>,
    /// per stream type ("bidirectional"/"unidirectional"): MAX_STREAMS values in processing order
    ms: BTreeMap<String, Vec<u64>>,
    /// what this endpoint itself SENT as MAX_DATA / MAX_STREAM_DATA / MAX_STREAMS (largest)
    adv_md: u64,
    adv_msd: BTreeMap<u64, u64>,
    adv_ms: BTreeMap<String, u64>,
    /// *_BLOCKED frames this endpoint sent
    blocked: u64,
    /// limit named by the latest DATA_BLOCKED frame this endpoint sent (reported only: the frame is queued when the limit is
    /// hit and may leave, or be retransmitted, after newer MAX_DATA frames were processed — it does not prove anything)
    last_data_blocked: Option<u64>,
    frames_rcvd: BTreeMap<String, u64>,
}

fn flow_of(pk: &[PktEv], ep: &str) -> Flow {
    let mut f = Flow::default();
    for e in pk.iter().filter(|e| e.ep == ep) {
        for fr in &e.detail {
            if !e.rcvd && fr.ty == "data_blocked" {
                f.last_data_blocked = fr.limit;
            }
            if e.rcvd {
                *f.frames_rcvd.entry(fr.ty.clone()).or_insert(0) += 1;
                match fr.ty.as_str() {
                    "max_data" => f.md.push(fr.maximum.unwrap_or(0)),
                    "max_stream_data" => f.msd.entry(fr.stream_id.unwrap_or(u64::MAX)).or_default().push(fr.maximum.unwrap_or(0)),
                    "max_streams" => f.ms.entry(fr.stream_type.clone().unwrap_or_default()).or_default().push(fr.maximum.unwrap_or(0)),
                    _ => {}
                }
            } else {
                match fr.ty.as_str() {
                    "stream" => {
                        let end = fr.offset.unwrap_or(0) + fr.length.unwrap_or(0);
                        let h = f.hi.entry(fr.stream_id.unwrap_or(u64::MAX)).or_insert(0);
                        *h = (*h).max(end);
                    }
                    "max_data" => f.adv_md = f.adv_md.max(fr.maximum.unwrap_or(0)),
                    "max_stream_data" => {
                        let a = f.adv_msd.entry(fr.stream_id.unwrap_or(u64::MAX)).or_insert(0);
                        *a = (*a).max(fr.maximum.unwrap_or(0));
                    }
                    "max_streams" => {
                        let a = f.adv_ms.entry(fr.stream_type.clone().unwrap_or_default()).or_insert(0);
                        *a = (*a).max(fr.maximum.unwrap_or(0));
                    }
                    t if t.ends_with("_blocked") => f.blocked += 1,
                    _ => {}
                }
            }
        }
    }
    f
}

/// The peer's initial limit for data `ep` sends on stream `sid` (RFC 9000 §18.2: bidi_local / bidi_remote are named
/// from the point of view of the endpoint that SENT the parameter).
fn initial_stream_limit(ep: &str, sid: u64, peer: &Side) -> u64 {
    let opened_by_client = sid % 2 == 0;
    let ep_opened = (ep == "client") == opened_by_client;
    (if sid % 4 >= 2 { peer.imsd_uni } else if ep_opened { peer.imsd_br } else { peer.imsd_bl }) as u64
}

/// `stall:flow-control:*` diagnosis of an incomplete case: (key, text) per finding.
fn diagnose(pk: &[PktEv], plans: &[Plan], c: &Side, s: &Side) -> (Vec<(String, String)>, Vec<String>) {
    let mut out = vec![];
    // observations that do not prove a flow-control stall (reported inside the liveness message only)
    let mut hints = vec![];
    for (ep, peer_name, peer) in [("client", "server", s), ("server", "client", c)] {
        let me = flow_of(pk, ep);
        let pf = flow_of(pk, peer_name);
        // connection level
        let sent: u64 = me.hi.values().sum();
        let md_max = me.md.iter().copied().max().unwrap_or(0).max(peer.imd as u64);
        let md_last = me.md.last().copied();
        let to_send: u64 = plans.iter().map(|p| match p.kind {
            Kind::BidiEcho => p.len as u64,
            Kind::UniC2S => if ep == "client" { p.len as u64 } else { 0 },
            Kind::UniS2C => if ep == "server" { p.len as u64 } else { 0 },
        }).sum();
        if sent < to_send {
            if let Some(last) = md_last.filter(|l| *l < md_max && sent >= *l) {
                // the sender stopped between a stale update and the largest one: what a send limit that moved BACKWARDS looks
                // like from outside (a sender stalled there for another reason looks the same — the wording says "consistent with")
                out.push(("stall:flow-control:conn".into(), format!(
                    "{ep} stopped sending after {sent} of {to_send} bytes: the last MAX_DATA it processed ({last}) is SMALLER than an earlier one ({md_max}; {} MAX_DATA frames processed, peer's initial_max_data {}) and it stopped between the two — consistent with a stale window update having LOWERED the connection send limit; peer advertised up to {}, {ep} sent {} *_BLOCKED frames, its latest DATA_BLOCKED names limit {:?}",
                    me.md.len(), peer.imd, pf.adv_md, me.blocked, me.last_data_blocked)));
            } else if sent >= md_max {
                let why = if pf.adv_md > md_max { format!("the {peer_name} sent MAX_DATA {} which never reached the {ep} (lost and not retransmitted?)", pf.adv_md) } else { format!("the {peer_name} never advertised more than {}", pf.adv_md.max(peer.imd as u64)) };
                out.push(("stall:flow-control:conn".into(), format!(
                    "{ep} stopped sending after {sent} of {to_send} bytes at the connection limit {md_max} ({} MAX_DATA frames processed, last {:?}, initial {}): {why}; {ep} sent {} *_BLOCKED frames",
                    me.md.len(), md_last, peer.imd, me.blocked)));
            }
        }
        // stream level
        for p in plans {
            let sends = match p.kind { Kind::BidiEcho => true, Kind::UniC2S => ep == "client", Kind::UniS2C => ep == "server" };
            if !sends || p.len == 0 {
                continue;
            }
            let Some(&hi) = me.hi.get(&p.sid) else { continue };
            if hi >= p.len as u64 {
                continue;
            }
            let init = initial_stream_limit(ep, p.sid, peer);
            // keyed by sequence number (see `Flow::msd`): `mx` is an upper bound of the largest limit this stream was
            // given, so "hi >= mx" is sound; "the last one is smaller" only when no other sending stream shares the key
            let seq = p.sid >> 2;
            let unique = !plans.iter().any(|q| q.sid != p.sid && q.sid >> 2 == seq && match q.kind { Kind::BidiEcho => true, Kind::UniC2S => ep == "client", Kind::UniS2C => ep == "server" });
            let vals = me.msd.get(&seq).cloned().unwrap_or_default();
            let mx = vals.iter().copied().max().unwrap_or(0).max(init);
            let last = vals.last().copied();
            let adv = pf.adv_msd.get(&seq).copied().unwrap_or(0);
            if let Some(l) = last.filter(|l| unique && *l < mx && hi >= *l && hi < mx) {
                hints.push(format!("{ep} stopped on stream {} after {hi} of {} bytes, between the last MAX_STREAM_DATA it processed ({l}) and an earlier, larger one ({mx})", p.sid, p.len));
            } else if hi >= mx {
                let why = if adv > mx { format!("the {peer_name} sent MAX_STREAM_DATA {adv} which never reached the {ep}") } else { format!("the {peer_name} never advertised more than {}", adv.max(init)) };
                out.push(("stall:flow-control:stream".into(), format!("{ep} stopped sending on stream {} after {hi} of {} bytes at the stream limit {mx} ({} MAX_STREAM_DATA processed, last {last:?}, initial {init}): {why}", p.sid, p.len, vals.len())));
            }
        }
        // stream count
        for (ty, bit, init) in [("bidirectional", 0u64, peer.ims_bi as u64), ("unidirectional", 2, peer.ims_uni as u64)] {
            let mine: Vec<&Plan> = plans.iter().filter(|p| p.sid % 4 == bit + if ep == "server" { 1 } else { 0 }).collect();
            if mine.is_empty() {
                continue;
            }
            // streams of this type on which the endpoint sent anything (a zero-length stream still sends its FIN frame)
            let opened = mine.iter().filter(|p| me.hi.contains_key(&p.sid)).count() as u64;
            let vals = me.ms.get(ty).cloned().unwrap_or_default();
            let mx = vals.iter().copied().max().unwrap_or(0).max(init);
            let adv = pf.adv_ms.get(ty).copied().unwrap_or(0);
            if opened < mine.len() as u64 && opened >= mx {
                let why = if adv > mx { format!("the {peer_name} sent MAX_STREAMS {adv} which never reached the {ep}") } else { format!("the {peer_name} never advertised more than {}", adv.max(init)) };
                out.push(("stall:flow-control:streams".into(), format!("{ep} opened {opened} of {} {ty} streams and stopped at the stream limit {mx} ({} MAX_STREAMS processed, last {:?}, initial {init}): {why}", mine.len(), vals.len(), vals.last())));
            }
        }
    }
    (out, hints)
}

// ---------------------------------------------------------------------------------------------
// driver
// ---------------------------------------------------------------------------------------------

/// (seed, case) of the quick tier that stalled the handshake on the unchanged code (finding 5): client→server reordering
/// (hold-c2s / hold-both, hold_pass 8) while the client writes ≈ 400 kB at once ⇒ > 128 early 1-RTT packets.
const REGRESSION: &[(u64, u64)] = &[(1001, 100), (12, 758), (13, 330)];
const REG_BASE: u64 = 1_000_000;

fn run(o: &Opts) {
    let mut sink = Sink::new_with_stats(&o.out, &o.stats);
    sink.set_hang_secs(300);
    // Every run ends with the fixed REGRESSION cases (ids 1_000_000 + k; `--only-case 1000000` replays one): the (seed, case)
    // pairs that exposed finding 5 (docs/C02.md §9/§10), drawn at the quick tier whatever `--seed` / `--tier` say.
    let ids: Vec<u64> = match o.only_case { Some(i) => vec![i], None => (0..o.cases).chain((0..REGRESSION.len() as u64).map(|k| REG_BASE + k)).collect() };
    let run_seed = o.seed;
    let run_thorough = o.thorough();
    let mut totals = BTreeMap::<String, u64>::new();
    for chunk in ids.chunks(6) {
        sink.pending(&format!("cases {chunk:?}"));
        eprintln!("gmq-sim c02_small: running cases {chunk:?} (re-run one with --only-case)");
        let hs: Vec<_> = chunk.iter().map(|&case_id| std::thread::spawn(move || {
            let (seed, id, thorough) = match REGRESSION.get(case_id.wrapping_sub(REG_BASE) as usize) {
                Some(&(sd, c)) if case_id >= REG_BASE => (sd, c, false),
                _ => (run_seed, case_id, run_thorough),
            };
            let mut rng = Rng::new(seed ^ 0x5a11, id);
            let (cs, ss) = match rng.below(8) {
                0 => (false, false),
                1 | 2 => (true, false),
                3 | 4 => (false, true),
                _ => (true, true),
            };
            let c = draw_side(&mut rng, cs);
            let s = draw_side(&mut rng, ss);
            let (mode, plans) = plan_small(&mut rng, &c, &s, thorough);
            let profile = draw_profile(&mut rng);
            let tap = PacketTap::new();
            let mut cfg = PairCfg::default().with_qlog(tap.clone());
            apply_side!(cfg.client_params, c);
            apply_side!(cfg.server_params, s);
            let idle = Duration::from_secs(c.idle_s.min(s.idle_s));
            let adv = CtrlAdversary::new(Rng::new(seed ^ 0xADD5, id), profile.clone(), tap.clone());
            let pl2 = plans.clone();
            let out = sim::run_case(case_id, Duration::from_secs(120), move || c02::one_case_adv(Box::new(adv), pl2, idle, Duration::from_secs(120), cfg, true));
            (case_id, c, s, mode, plans, profile, out, tap.take())
        })).collect();
        for h in hs {
            let (id, c, s, mode, plans, profile, out, pk) = h.join().expect("case thread");
            if std::env::var("GMQ_C02S_DUMP").is_ok() {
                // debugging aid: the endpoints' packet log of the case (virtual ms since the first event)
                let t0 = pk.first().map(|e| e.at);
                for e in &pk {
                    eprintln!("pkt t={:>8.1}ms {} {} {} pn={:?} {:?}", t0.map(|t| (e.at - t).as_secs_f64() * 1e3).unwrap_or(0.0), e.ep, if e.rcvd { "rcvd" } else { "sent" }, e.ty, e.pn, e.frames);
                }
            }
            sink.case(&id.to_string());
            sink.branch(&format!("profile:{}", profile.name));
            sink.branch(&format!("params:c={} s={}", if c.small { "small" } else { "default" }, if s.small { "small" } else { "default" }));
            sink.branch(&format!("workload:{mode}"));
            sink.branch(match plans.len() { 0..=3 => "streams:<=3", 4..=9 => "streams:4-9", _ => "streams:>=10" });
            sink.line(&format!("cfg {} bounded=1", profile.name), "ok");
            sink.line(&format!("wire params {} {} workload={mode} streams={} bytes={}", side_tokens("c", &c), side_tokens("s", &s), plans.len(), plans.iter().map(|p| p.len).sum::<usize>()), "ok");
            sink.line(&format!("wire faults window_idx={} window_ms={} c2s={:?} s2c={:?}", profile.window_idx, profile.window_ms, profile.dir[0], profile.dir[1]).replace(", ", ",").replace("DirFaults ", ""), "ok");
            for loc in &out.panics {
                sink.monitor_fail(&format!("panic:{loc}"), &format!("a thread/task of the connection panicked at {loc} (profile {}, params c={{{}}} s={{{}}})", profile.name, side_tokens("c", &c), side_tokens("s", &s)));
            }
            if out.wall_hang {
                sink.monitor_fail("hang:wall-clock", &format!("case did not finish within 120 s of real time (busy loop or deadlock; profile {})", profile.name));
            }
            // what the endpoints saw of flow control (coverage + the header of the diagnosis)
            let mut updates = 0u64;
            for ep in ["client", "server"] {
                let f = flow_of(&pk, ep);
                let sent: u64 = f.hi.values().sum();
                sink.line(
                    &format!("wire flow {ep} sent={sent} md_rcvd={} md_last={} md_max={} msd_rcvd={} ms_rcvd={} blocked_sent={}",
                        f.md.len(), f.md.last().copied().unwrap_or(0), f.md.iter().copied().max().unwrap_or(0),
                        f.msd.values().map(|v| v.len()).sum::<usize>(), f.ms.values().map(|v| v.len()).sum::<usize>(), f.blocked),
                    "ok",
                );
                for (t, n) in &f.frames_rcvd {
                    if t != "stream" {
                        *totals.entry(format!("rcvd:{t}")).or_insert(0) += n;
                        sink.branch(&format!("rcvd:{t}"));
                    }
                }
                // a stale update = one processed after a larger one
                let stale = f.md.windows(2).filter(|w| w[1] < w[0]).count() as u64;
                if stale > 0 {
                    *totals.entry("stale_max_data_processed".into()).or_insert(0) += stale;
                    sink.branch("stale-max-data-processed");
                }
                updates += (f.md.len() + f.msd.values().map(|v| v.len()).sum::<usize>() + f.ms.values().map(|v| v.len()).sum::<usize>()) as u64;
            }
            sink.branch(match updates { 0 => "window-updates:0", 1..=9 => "window-updates:1-9", 10..=99 => "window-updates:10-99", _ => "window-updates:>=100" });
            if updates > 0 {
                sink.nontrivial();
            }
            let Some(r) = out.result else {
                if !out.wall_hang && out.panics.is_empty() {
                    sink.monitor_fail("harness:no-result", "case produced no result");
                }
                for (k, w) in diagnose(&pk, &plans, &c, &s).0 {
                    sink.monitor_fail(&k, &format!("{w} (profile {})", profile.name));
                }
                sink.line("end", "complete=0 panicked=1");
                continue;
            };
            for ev in &r.evs {
                sink.line(&ev.op, &ev.obs);
            }
            for (k, w) in &r.fails {
                sink.monitor_fail(k, &format!("{w} (profile {})", profile.name));
            }
            // receive path must never block on one connection (docs/C02.md §9, finding 5): a datagram waited in a socket's
            // buffer for >= 1 s of VIRTUAL time before the interface's receive task read it (healthy: 0 ms; the clock only
            // advances while all tasks are idle, so the task was parked on something other than the socket)
            if let Some(&ms) = r.counts.get("rx_wait_max_ms").filter(|&&ms| ms >= 1000) {
                sink.monitor_fail("receive-path-blocked", &format!("a datagram sat {ms} ms (virtual) in a socket's receive buffer before the interface's receive task read it: the receive task was blocked on a connection's packet queue (profile {}, server_saw_conn={})", profile.name, r.server_saw_conn));
            }
            for (ep, t) in [("client", &r.term_c), ("server", &r.term_s)] {
                if let Some(k) = t {
                    if !c02::allowed_term(k) {
                        sink.monitor_fail(&format!("close-by-network-fault:{k}"), &format!("{ep} connection was terminated with {k}: a transport error raised although both endpoints are honest (profile {}, faults {:?}; {:?}; params c={{{}}} s={{{}}})", profile.name, r.counts, r.term_detail, side_tokens("c", &c), side_tokens("s", &s)));
                    }
                }
            }
            if !r.complete {
                let (diags, hints) = diagnose(&pk, &plans, &c, &s);
                for (k, w) in &diags {
                    sink.monitor_fail(k, &format!("{w} (profile {})", profile.name));
                }
                let bad_term = [&r.term_c, &r.term_s].iter().any(|t| t.as_ref().is_some_and(|k| !c02::allowed_term(k)));
                if out.panics.is_empty() && !bad_term {
                    // own signature for "the handshake never got through": the server application was never handed the
                    // connection (`QuicListeners::accept` did not return) although the faults are bounded
                    sink.monitor_fail(
                        if r.server_saw_conn { "liveness:bounded-faults-incomplete" } else { "liveness:bounded-faults-handshake-stalled" },
                        &format!("profile {}: after {} ms virtual the transfers were not complete (client_done={:?} server_done={:?} dirs {}/{} term_c={:?} term_s={:?} faults {:?}; flow-control diagnosis: {}; params c={{{}}} s={{{}}})",
                            profile.name, r.virt_ms, r.client_done, r.server_done, r.complete_dirs, r.expected_dirs, r.term_c, r.term_s, r.counts,
                            if diags.is_empty() && hints.is_empty() { "no sender sits at a limit".to_string() } else { diags.iter().map(|d| d.0.clone()).chain(hints.iter().map(|h| format!("hint: {h}"))).collect::<Vec<_>>().join(", ") },
                            side_tokens("c", &c), side_tokens("s", &s)),
                    );
                }
            } else {
                if r.complete_dirs != r.expected_dirs {
                    sink.monitor_fail("integrity:missing-stream-data", &format!("applications reported success but only {}/{} stream directions were fully read", r.complete_dirs, r.expected_dirs));
                }
                if out.panics.is_empty() && (r.term_s.is_none() || r.term_c.is_none()) {
                    sink.monitor_fail("liveness:close-not-seen", &format!("after the client closed, term_c={:?} term_s={:?} within idle+5 s (profile {})", r.term_c, r.term_s, profile.name));
                }
            }
            sink.branch(if r.complete { "outcome:complete" } else { "outcome:failed" });
            for (k, v) in &r.counts {
                if !matches!(*k, "sent" | "sent_bytes" | "delivered") && *v > 0 {
                    sink.branch(&format!("fault:{k}"));
                    *totals.entry(format!("fault:{k}")).or_insert(0) += v;
                }
            }
            let cs: Vec<String> = r.counts.iter().map(|(k, v)| format!("{k}={v}")).collect();
            sink.line("end", &format!("complete={} virt_ms={} {}", r.complete as u8, r.virt_ms, cs.join(" ")));
        }
    }
    for loc in sim::unattributed_panics() {
        sink.monitor_fail(&format!("panic:{loc}"), &format!("a thread outside any case panicked at {loc}"));
    }
    let upd = ["rcvd:max_data", "rcvd:max_stream_data", "rcvd:max_streams"].iter().map(|k| totals.get(*k).copied().unwrap_or(0)).collect::<Vec<_>>();
    for (k, v) in &totals {
        sink.note(k, serde_json::json!(v));
    }
    if o.only_case.is_none() && o.cases >= 12 && upd.iter().any(|n| *n == 0) {
        sink.monitor_fail("small:no-window-updates", &format!("the leg would be vacuous: MAX_DATA / MAX_STREAM_DATA / MAX_STREAMS frames dispatched = {upd:?}"));
    }
    sink.finish(&o.stats, "non-trivial = at least one MAX_DATA / MAX_STREAM_DATA / MAX_STREAMS frame was dispatched by an endpoint");
}
