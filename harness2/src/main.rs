//! gmq-sim: end-to-end simulator harness (second harness crate).  Same command line, transcript and
//! stats format as `harness/` (it reuses that crate's `common.rs` unchanged); runs live in
//! `src/cNN*.rs`, each exporting `pub const RUNS: &[(&str, fn(&Opts))]`; `registry.rs` is generated.
#[path = "../../harness/src/common.rs"]
mod common;
mod registry;
pub mod sim;

use common::Opts;

fn main() {
    let args: Vec<String> = std::env::args().collect();
    if args.len() < 2 {
        eprintln!("usage: gmq-sim <run> --seed S --cases N --tier quick|thorough --out F --stats F [--only-case I]");
        std::process::exit(2);
    }
    let mut o = Opts {
        prop: args[1].clone(),
        seed: 1,
        cases: 40,
        tier: "quick".into(),
        out: "/dev/null".into(),
        stats: "/dev/null".into(),
        only_case: None,
        extra: vec![],
    };
    let mut i = 2;
    while i < args.len() {
        let v = args.get(i + 1).cloned().unwrap_or_default();
        match args[i].as_str() {
            "--seed" => o.seed = v.parse().unwrap(),
            "--cases" => o.cases = v.parse().unwrap(),
            "--tier" => o.tier = v,
            "--out" => o.out = v,
            "--stats" => o.stats = v,
            "--only-case" => o.only_case = Some(v.parse().unwrap()),
            other => {
                o.extra.push(other.to_string());
                i += 1;
                continue;
            }
        }
        i += 2;
    }
    sim::install_panic_hook();
    match registry::all().into_iter().find(|(n, _)| *n == o.prop) {
        Some((_, f)) => f(&o),
        None => {
            eprintln!("unknown run {}", o.prop);
            std::process::exit(2);
        }
    }
}
