#![allow(dead_code)]
//! End-to-end simulator: a REAL `dquic` client and server talking through an in-memory datagram
//! network that the case's seeded PRNG controls, under tokio's paused (virtual) clock.
//!
//! Pieces (all reusable by other properties, see docs/C02.md "How to add a run"):
//! * [`Net`]      – the switch.  Implements the repo's `ProductIO`/`IO` traits (`Net::factory`), so every
//!                  datagram the stack sends goes through [`Adversary::on_send`] and is logged in
//!                  [`WireLog`] (per direction counts; optionally every datagram: `Net::record(true)`).
//! * [`Adversary`]– decides per datagram what is delivered, when, and what else is injected.
//!                  [`FaultAdversary`] is the seeded drop/delay/dup/truncate/flip/garbage/replay one.
//! * [`Pair`]     – a client (`QuicClient`) and a server (`QuicListeners`) built over one `Net`,
//!                  certificates from `$GMQ_REPO/tests/keychain/localhost`.
//! * [`run_case`] – runs one async case on its own thread in a current-thread runtime with the clock
//!                  paused, with a wall-clock guard, and attributes panics of ANY task to the case.
//! * [`History`]  – application-level event log of a case (virtual µs, endpoint, event).

use std::{
    cell::Cell,
    collections::{BTreeMap, BinaryHeap, HashMap, VecDeque},
    future::Future,
    io,
    net::SocketAddr,
    sync::{Arc, Mutex},
    task::{Context, Poll, Waker},
    time::Duration,
};

use bytes::BytesMut;
use dquic::{
    prelude::*,
    qbase::{
        net::route::{Line, Link, Pathway, Route},
        param::{ClientParameters, ServerParameters},
    },
    qinterface::{
        bind_uri::BindUri,
        component::route::QuicRouter,
        io::{IO, ProductIO},
        manager::InterfaceManager,
    },
    qresolve::Source,
};
use tokio::time::Instant;

use crate::common::Rng;

// ------------------------------------------------------------------------------------------------
// panic accounting (process wide; tokio swallows task panics, the hook does not)
// ------------------------------------------------------------------------------------------------

thread_local! { static CASE: Cell<u64> = const { Cell::new(u64::MAX) }; }
static PANICS: Mutex<Vec<(u64, String)>> = Mutex::new(Vec::new());

/// Install the process-wide hook.  Every panic in any thread/task is recorded as (case, `file:line`).
pub fn install_panic_hook() {
    std::panic::set_hook(Box::new(|info| {
        let loc = info
            .location()
            .map(|l| {
                let f = l.file();
                // keep the path from the crate directory on (stable across scratch worktrees)
                let f = f.rsplit_once("/src/").map(|(a, b)| format!("{}/src/{}", a.rsplit('/').next().unwrap_or(""), b)).unwrap_or(f.to_string());
                format!("{}:{}", f, l.line())
            })
            .unwrap_or_else(|| "?".into());
        let case = CASE.try_with(|c| c.get()).unwrap_or(u64::MAX);
        PANICS.lock().unwrap_or_else(|e| e.into_inner()).push((case, loc));
    }));
}

pub fn panics_of(case: u64) -> Vec<String> {
    PANICS.lock().unwrap_or_else(|e| e.into_inner()).iter().filter(|(c, _)| *c == case).map(|(_, l)| l.clone()).collect()
}

pub fn unattributed_panics() -> Vec<String> {
    panics_of(u64::MAX)
}

// ------------------------------------------------------------------------------------------------
// the network
// ------------------------------------------------------------------------------------------------

#[derive(Clone, Debug)]
pub struct Dgram {
    pub src: SocketAddr,
    pub dst: SocketAddr,
    pub data: Vec<u8>,
}

/// What the adversary lets happen for one datagram put on the wire.
pub struct Delivery {
    /// extra one-way delay on top of `Net::base_delay`
    pub extra: Duration,
    pub dgram: Dgram,
    /// `true` if these are exactly the bytes an endpoint sent (original / duplicate / replay)
    pub genuine: bool,
}

pub trait Adversary: Send {
    /// `idx` = number of datagrams seen so far (both directions).  Returns what is delivered.
    fn on_send(&mut self, idx: u64, now: Duration, d: &Dgram, log: &mut WireLog) -> Vec<Delivery>;
    /// Asked when a scheduled datagram is due, just before it is handed to the socket: `false` = it is withdrawn
    /// (an adversary that released a held-back datagram early cancels the timed copy, and vice versa).
    fn on_deliver(&mut self, _now: Duration, _d: &Dgram, _log: &mut WireLog) -> bool {
        true
    }
}

/// Identity network.
pub struct Honest;
impl Adversary for Honest {
    fn on_send(&mut self, _idx: u64, _now: Duration, d: &Dgram, _log: &mut WireLog) -> Vec<Delivery> {
        vec![Delivery { extra: Duration::ZERO, dgram: d.clone(), genuine: true }]
    }
}

#[derive(Clone, Debug)]
pub struct WireRec {
    pub t_us: u64,
    pub src: SocketAddr,
    pub dst: SocketAddr,
    pub data: Vec<u8>,
}

#[derive(Default)]
pub struct WireLog {
    /// counts: sent, sent_bytes, delivered, and one entry per fault kind applied
    pub counts: BTreeMap<&'static str, u64>,
    /// per sender address: (datagrams, bytes) put on the wire
    pub by_src: BTreeMap<SocketAddr, (u64, u64)>,
    pub record: bool,
    /// every datagram put on the wire by an endpoint (only when `record`)
    pub sent: Vec<WireRec>,
    /// every datagram handed to an endpoint's socket, genuine or not, with its delivery time (only when `record`)
    pub delivered: Vec<WireRec>,
}

impl WireLog {
    pub fn bump(&mut self, k: &'static str) {
        *self.counts.entry(k).or_insert(0) += 1;
    }
    pub fn get(&self, k: &str) -> u64 {
        self.counts.get(k).copied().unwrap_or(0)
    }
}

struct Inbox {
    /// datagram, source, virtual time at which it was put into the socket's receive buffer
    q: VecDeque<(Vec<u8>, SocketAddr, Instant)>,
    waker: Option<Waker>,
}

struct Sched {
    due: Instant,
    seq: u64,
    d: Dgram,
}
impl PartialEq for Sched {
    fn eq(&self, o: &Self) -> bool {
        self.seq == o.seq
    }
}
impl Eq for Sched {}
impl PartialOrd for Sched {
    fn partial_cmp(&self, o: &Self) -> Option<std::cmp::Ordering> {
        Some(self.cmp(o))
    }
}
impl Ord for Sched {
    fn cmp(&self, o: &Self) -> std::cmp::Ordering {
        // BinaryHeap is a max-heap: reverse
        (o.due, o.seq).cmp(&(self.due, self.seq))
    }
}

struct NetInner {
    inboxes: HashMap<SocketAddr, Inbox>,
    heap: BinaryHeap<Sched>,
    seq: u64,
    idx: u64,
    adversary: Box<dyn Adversary>,
    log: WireLog,
    next_port: u16,
}

pub struct Net {
    inner: Mutex<NetInner>,
    wake_pump: tokio::sync::Notify,
    start: Instant,
    pub base_delay: Duration,
}

impl Net {
    pub fn new(adversary: Box<dyn Adversary>, base_delay: Duration) -> Arc<Net> {
        Arc::new(Net {
            inner: Mutex::new(NetInner {
                inboxes: HashMap::new(),
                heap: BinaryHeap::new(),
                seq: 0,
                idx: 0,
                adversary,
                log: WireLog::default(),
                next_port: 40000,
            }),
            wake_pump: tokio::sync::Notify::new(),
            start: Instant::now(),
            base_delay,
        })
    }

    pub fn now(&self) -> Duration {
        Instant::now() - self.start
    }

    /// origin of the wire log's `t_us`
    pub fn start(&self) -> Instant {
        self.start
    }

    pub fn record(&self, on: bool) {
        self.inner.lock().unwrap().log.record = on;
    }

    pub fn with_log<T>(&self, f: impl FnOnce(&WireLog) -> T) -> T {
        f(&self.inner.lock().unwrap().log)
    }

    /// The interface factory to hand to `with_iface_factory`.
    pub fn factory(self: &Arc<Self>) -> Arc<dyn ProductIO> {
        let net = self.clone();
        Arc::new(move |uri: BindUri| SimIo::bind(net.clone(), uri))
    }

    /// Must be spawned once per case: moves scheduled datagrams into the inboxes when they are due.
    pub async fn pump(self: Arc<Self>) {
        loop {
            let next = {
                let mut g = self.inner.lock().unwrap();
                let now = Instant::now();
                while g.heap.peek().is_some_and(|s| s.due <= now) {
                    let s = g.heap.pop().unwrap();
                    {
                        let NetInner { adversary, log, .. } = &mut *g;
                        if !adversary.on_deliver(now - self.start, &s.d, log) {
                            continue;
                        }
                    }
                    g.log.bump("delivered");
                    if g.log.record {
                        let t_us = (now - self.start).as_micros() as u64;
                        g.log.delivered.push(WireRec { t_us, src: s.d.src, dst: s.d.dst, data: s.d.data.clone() });
                    }
                    if let Some(ib) = g.inboxes.get_mut(&s.d.dst) {
                        ib.q.push_back((s.d.data, s.d.src, now));
                        if let Some(w) = ib.waker.take() {
                            w.wake();
                        }
                    } else {
                        g.log.bump("undeliverable");
                    }
                }
                g.heap.peek().map(|s| s.due)
            };
            match next {
                Some(due) => {
                    tokio::select! {
                        _ = tokio::time::sleep_until(due) => {}
                        _ = self.wake_pump.notified() => {}
                    }
                }
                None => self.wake_pump.notified().await,
            }
        }
    }

    fn send(&self, d: Dgram) {
        let mut g = self.inner.lock().unwrap();
        let now = self.now();
        let idx = g.idx;
        g.idx += 1;
        g.log.bump("sent");
        *g.log.counts.entry("sent_bytes").or_insert(0) += d.data.len() as u64;
        let e = g.log.by_src.entry(d.src).or_insert((0, 0));
        e.0 += 1;
        e.1 += d.data.len() as u64;
        if g.log.record {
            g.log.sent.push(WireRec { t_us: now.as_micros() as u64, src: d.src, dst: d.dst, data: d.data.clone() });
        }
        let NetInner { adversary, log, .. } = &mut *g;
        let outs = adversary.on_send(idx, now, &d, log);
        for o in outs {
            g.seq += 1;
            let seq = g.seq;
            g.heap.push(Sched { due: Instant::now() + self.base_delay + o.extra, seq, d: o.dgram });
        }
        drop(g);
        self.wake_pump.notify_one();
    }
}

/// One simulated UDP socket.
pub struct SimIo {
    net: Arc<Net>,
    uri: BindUri,
    addr: SocketAddr,
    closed: bool,
}

impl SimIo {
    fn bind(net: Arc<Net>, uri: BindUri) -> SimIo {
        let mut addr = uri.as_inet_bind_uri().unwrap_or_else(|| "10.9.9.9:0".parse().unwrap());
        {
            let mut g = net.inner.lock().unwrap();
            if addr.port() == 0 {
                g.next_port += 1;
                addr.set_port(g.next_port);
            }
            g.inboxes.insert(addr, Inbox { q: VecDeque::new(), waker: None });
        }
        SimIo { net, uri, addr, closed: false }
    }
}

impl Drop for SimIo {
    fn drop(&mut self) {
        if let Ok(mut g) = self.net.inner.lock() {
            g.inboxes.remove(&self.addr);
        }
    }
}

impl IO for SimIo {
    fn bind_uri(&self) -> BindUri {
        self.uri.clone()
    }
    fn bound_addr(&self) -> io::Result<SocketAddr> {
        Ok(self.addr)
    }
    fn max_segment_size(&self) -> io::Result<usize> {
        Ok(1500)
    }
    fn max_segments(&self) -> io::Result<usize> {
        Ok(32)
    }
    fn poll_send(&self, _cx: &mut Context, pkts: &[io::IoSlice], route: Route) -> Poll<io::Result<usize>> {
        if self.closed {
            return Poll::Ready(Err(io::Error::other("sim io closed")));
        }
        for p in pkts {
            self.net.send(Dgram { src: self.addr, dst: route.line.link.dst, data: p.to_vec() });
        }
        Poll::Ready(Ok(pkts.len()))
    }
    fn poll_recv(&self, cx: &mut Context, pkts: &mut [BytesMut], route: &mut [Route]) -> Poll<io::Result<usize>> {
        if self.closed {
            return Poll::Ready(Err(io::Error::other("sim io closed")));
        }
        let mut g = self.net.inner.lock().unwrap();
        let Some(ib) = g.inboxes.get_mut(&self.addr) else {
            return Poll::Ready(Err(io::Error::other("sim io unbound")));
        };
        let n = pkts.len().min(route.len());
        let mut k = 0;
        let mut waited = Duration::ZERO;
        let now = Instant::now();
        while k < n {
            let Some((data, src, at)) = ib.q.pop_front() else { break };
            waited = waited.max(now.saturating_duration_since(at));
            let len = data.len().min(pkts[k].len());
            pkts[k][..len].copy_from_slice(&data[..len]);
            // same orientation as qudp's UdpSocketController::poll_recv: "the way to answer"
            let pathway: Pathway = Pathway::new(src.into(), self.addr.into());
            let link = Link::new(src, self.addr).flip();
            route[k] = Route::new(pathway.flip(), Line::new(link, 64, None, len as u16));
            k += 1;
        }
        if k == 0 {
            ib.waker = Some(cx.waker().clone());
            Poll::Pending
        } else {
            // The clock is virtual and only advances while every task is idle: a datagram that sat in the socket's
            // buffer for a measurable virtual time means the interface's receive task was not reading although it had
            // been woken, i.e. it was blocked on something else (monitor `receive-path-blocked`; key only present then).
            if waited >= Duration::from_millis(1) {
                let e = g.log.counts.entry("rx_wait_max_ms").or_insert(0);
                *e = (*e).max(waited.as_millis() as u64);
            }
            Poll::Ready(Ok(k))
        }
    }
    fn poll_close(&mut self, _cx: &mut Context) -> Poll<io::Result<()>> {
        self.closed = true;
        if let Ok(mut g) = self.net.inner.lock() {
            if let Some(ib) = g.inboxes.get_mut(&self.addr) {
                if let Some(w) = ib.waker.take() {
                    w.wake();
                }
            }
        }
        Poll::Ready(Ok(()))
    }
}

// ------------------------------------------------------------------------------------------------
// the seeded fault adversary
// ------------------------------------------------------------------------------------------------

/// Per-mille probabilities; a datagram gets at most one "primary" fate (drop / truncate / corrupt /
/// delay / pass) and independently may be duplicated, and may trigger an injection (garbage with a
/// plausible header, a bit-flipped copy, a replay of an older datagram) IN ADDITION to its fate.
#[derive(Clone, Debug, Default)]
pub struct Profile {
    pub name: &'static str,
    pub drop: u64,
    pub delay: u64,
    pub dup: u64,
    pub truncate: u64,
    /// the original is replaced by a copy with 1–3 flipped bits
    pub corrupt: u64,
    /// a copy with one flipped bit is delivered in addition to the original
    pub inject_flip: u64,
    /// header of an observed datagram + random tail, in addition
    pub inject_garbage: u64,
    /// an older datagram of the same direction again, in addition
    pub replay: u64,
    /// faults only apply to the first `fault_window` datagrams (None = forever)
    pub fault_window: Option<u64>,
    /// every datagram with index ≥ this is dropped (unbounded fault)
    pub blackhole_after: Option<u64>,
    /// liveness expectation: `true` = everything must complete
    pub bounded: bool,
}

pub struct FaultAdversary {
    pub rng: Rng,
    pub p: Profile,
    history: Vec<Dgram>,
}

impl FaultAdversary {
    pub fn new(rng: Rng, p: Profile) -> Self {
        FaultAdversary { rng, p, history: vec![] }
    }
}

fn flip_bits(rng: &mut Rng, data: &mut [u8], n: u64, bias_first_byte: bool) {
    if data.is_empty() {
        return;
    }
    for _ in 0..n {
        // bias towards the first byte (form / fixed / reserved / key-phase / pn-length bits) and the header
        let pos = if bias_first_byte && rng.chance(1, 2) {
            0
        } else if rng.chance(1, 4) {
            rng.below(data.len().min(32) as u64) as usize
        } else {
            rng.below(data.len() as u64) as usize
        };
        data[pos] ^= 1 << rng.below(8);
    }
}

impl Adversary for FaultAdversary {
    fn on_send(&mut self, idx: u64, _now: Duration, d: &Dgram, log: &mut WireLog) -> Vec<Delivery> {
        let p = self.p.clone();
        if p.blackhole_after.is_some_and(|n| idx >= n) {
            log.bump("blackholed");
            return vec![];
        }
        let active = p.fault_window.is_none_or(|w| idx < w);
        let mut out = vec![];
        if !active {
            out.push(Delivery { extra: Duration::ZERO, dgram: d.clone(), genuine: true });
            return out;
        }
        let r = &mut self.rng;
        let roll = r.below(1000);
        let mut acc = 0;
        let mut hit = |w: u64| {
            acc += w;
            roll < acc
        };
        if hit(p.drop) {
            log.bump("drop");
        } else if hit(p.truncate) {
            log.bump("truncate");
            let n = if d.data.len() > 1 { r.range(0, d.data.len() as u64 - 1) as usize } else { 0 };
            out.push(Delivery { extra: Duration::ZERO, dgram: Dgram { data: d.data[..n].to_vec(), ..d.clone() }, genuine: false });
        } else if hit(p.corrupt) {
            log.bump("corrupt");
            let mut c = d.clone();
            let n = r.range(1, 3);
            flip_bits(r, &mut c.data, n, true);
            out.push(Delivery { extra: Duration::ZERO, dgram: c, genuine: false });
        } else if hit(p.delay) {
            log.bump("delay");
            let ms = *r.pick(&[1u64, 3, 10, 30, 100, 300]);
            out.push(Delivery { extra: Duration::from_millis(r.range(1, ms)), dgram: d.clone(), genuine: true });
        } else {
            out.push(Delivery { extra: Duration::ZERO, dgram: d.clone(), genuine: true });
        }
        if r.below(1000) < p.dup {
            log.bump("dup");
            out.push(Delivery { extra: Duration::from_micros(r.range(0, 20_000)), dgram: d.clone(), genuine: true });
        }
        if r.below(1000) < p.inject_flip {
            log.bump("inject_flip");
            let mut c = d.clone();
            flip_bits(r, &mut c.data, 1, true);
            out.push(Delivery { extra: Duration::from_micros(r.range(0, 5_000)), dgram: c, genuine: false });
        }
        if r.below(1000) < p.inject_garbage {
            log.bump("inject_garbage");
            let mut c = d.clone();
            // keep a plausible header (first byte + connection id), randomise the rest
            let keep = r.range(1, 24).min(c.data.len() as u64) as usize;
            let len = r.range(keep as u64, 1400) as usize;
            c.data.truncate(keep);
            while c.data.len() < len {
                c.data.push(r.next_u64() as u8);
            }
            if r.chance(1, 2) {
                c.data[0] = (c.data[0] & 0xc0) | (r.next_u64() as u8 & 0x3f);
            }
            out.push(Delivery { extra: Duration::from_micros(r.range(0, 5_000)), dgram: c, genuine: false });
        }
        if r.below(1000) < p.replay && !self.history.is_empty() {
            let cands: Vec<&Dgram> = self.history.iter().filter(|h| h.dst == d.dst).collect();
            if !cands.is_empty() {
                log.bump("replay");
                let c = (*r.pick(&cands)).clone();
                out.push(Delivery { extra: Duration::from_micros(r.range(0, 50_000)), dgram: c, genuine: true });
            }
        }
        if self.history.len() < 4096 {
            self.history.push(d.clone());
        }
        out
    }
}

// ------------------------------------------------------------------------------------------------
// endpoints
// ------------------------------------------------------------------------------------------------

pub const SERVER_ADDR: &str = "10.0.0.1:4433";
pub const CLIENT_ADDR: &str = "10.0.0.2:50000";

fn keychain(file: &str) -> Vec<u8> {
    let repo = std::env::var("GMQ_REPO").unwrap_or_else(|_| "/repo".into());
    let p = format!("{repo}/tests/keychain/localhost/{file}");
    std::fs::read(&p).or_else(|_| std::fs::read(format!("/repo/tests/keychain/localhost/{file}"))).unwrap_or_else(|e| panic!("read {p}: {e}"))
}

pub struct Pair {
    pub net: Arc<Net>,
    pub client: Arc<QuicClient>,
    pub listeners: Arc<QuicListeners>,
    pub server_addr: SocketAddr,
    _pump: tokio::task::JoinHandle<()>,
}

pub struct PairCfg {
    pub client_params: ClientParameters,
    pub server_params: ServerParameters,
    pub base_delay: Duration,
    /// qlog collector installed on BOTH endpoints (C20's purity leg); `None` = the builders' default (NoopLogger)
    pub qlog: Option<Arc<dyn dquic::qevent::telemetry::QLog + Send + Sync>>,
}

impl Default for PairCfg {
    fn default() -> Self {
        PairCfg {
            client_params: handy::client_parameters(),
            server_params: handy::server_parameters(),
            base_delay: Duration::from_millis(5),
            qlog: None,
        }
    }
}

impl PairCfg {
    pub fn idle_timeout(mut self, d: Duration) -> Self {
        self.client_params.set(ParameterId::MaxIdleTimeout, d).expect("idle");
        self.server_params.set(ParameterId::MaxIdleTimeout, d).expect("idle");
        self
    }
    pub fn with_qlog(mut self, q: Arc<dyn dquic::qevent::telemetry::QLog + Send + Sync>) -> Self {
        self.qlog = Some(q);
        self
    }
}

impl Pair {
    /// Build a server listening on `SERVER_ADDR` and a client bound to `CLIENT_ADDR` over a fresh network.
    /// Must be called inside the case's runtime.
    pub async fn build(adversary: Box<dyn Adversary>, cfg: PairCfg) -> Pair {
        use rustls::pki_types::{CertificateDer, pem::PemObject};
        let net = Net::new(adversary, cfg.base_delay);
        let pump = tokio::spawn(net.clone().pump());

        let s_router = Arc::new(QuicRouter::default());
        let s_mgr = Arc::new(InterfaceManager::new());
        let lb = QuicListeners::builder();
        let lb = match &cfg.qlog { Some(q) => lb.with_qlog(q.clone()), None => lb };
        let listeners = lb
            .with_iface_factory(net.factory())
            .with_iface_manager(s_mgr)
            .with_router(s_router)
            .without_client_cert_verifier()
            .with_parameters(cfg.server_params)
            .listen(16)
            .expect("listen");
        let cert = keychain("server.cert");
        let key = keychain("server.key");
        listeners
            .add_server("localhost", cert.as_slice(), key.as_slice(), [BindUri::from(format!("inet://{SERVER_ADDR}"))], None)
            .await
            .expect("add_server");

        let mut roots = rustls::RootCertStore::empty();
        let ca = keychain("ca.cert");
        roots.add_parsable_certificates(CertificateDer::pem_slice_iter(&ca).map(Result::unwrap));
        let c_router = Arc::new(QuicRouter::default());
        let c_mgr = Arc::new(InterfaceManager::new());
        let cb = QuicClient::builder();
        let cb = match &cfg.qlog { Some(q) => cb.with_qlog(q.clone()), None => cb };
        let client = cb
            .with_iface_factory(net.factory())
            .with_iface_manager(c_mgr)
            .with_router(c_router)
            .with_root_certificates(roots)
            .with_parameters(cfg.client_params)
            .without_cert()
            .build();
        client.bind(BindUri::from(format!("inet://{CLIENT_ADDR}"))).await;
        Pair { net, client: Arc::new(client), listeners, server_addr: SERVER_ADDR.parse().unwrap(), _pump: pump }
    }

    pub async fn connect(&self) -> Result<Connection, String> {
        self.client
            .connected_to_with_source("localhost", [(Source::System, self.server_addr.into())])
            .await
            .map_err(|e| format!("{e:?}"))
    }
}

// ------------------------------------------------------------------------------------------------
// application-level history
// ------------------------------------------------------------------------------------------------

#[derive(Clone, Debug)]
pub struct Ev {
    pub t_us: u64,
    /// "c" | "s"
    pub ep: &'static str,
    /// op tokens, e.g. `w 4 1200` (see docs/C02.md)
    pub op: String,
    /// observation tokens
    pub obs: String,
}

#[derive(Clone)]
pub struct History {
    start: Instant,
    evs: Arc<Mutex<Vec<Ev>>>,
}

impl History {
    pub fn new() -> Self {
        History { start: Instant::now(), evs: Arc::new(Mutex::new(vec![])) }
    }
    pub fn push(&self, ep: &'static str, op: String, obs: String) {
        let t_us = (Instant::now() - self.start).as_micros() as u64;
        self.evs.lock().unwrap().push(Ev { t_us, ep, op, obs });
    }
    pub fn take(&self) -> Vec<Ev> {
        self.evs.lock().unwrap().clone()
    }
    /// origin of `Ev::t_us` (same clock as `PktEv::at`)
    pub fn start(&self) -> Instant {
        self.start
    }
}

/// Small enum of error kinds for the transcript (no text, no addresses).
pub fn err_kind(e: &dquic::qbase::error::Error) -> String {
    use dquic::qbase::error::Error;
    match e {
        Error::Quic(q) => format!("quic:{:?}", q.kind()),
        Error::App(_) => "app".into(),
    }
}

pub fn io_err_kind(e: &io::Error) -> String {
    if let Some(inner) = e.get_ref() {
        if let Some(q) = inner.downcast_ref::<dquic::qbase::error::Error>() {
            return err_kind(q);
        }
        let s = format!("{inner:?}");
        if let Some(i) = s.find("kind: ") {
            let k: String = s[i + 6..].chars().take_while(|c| c.is_alphanumeric()).collect();
            return format!("quic:{k}");
        }
        if s.contains("Reset") || s.contains("reset") {
            return "reset".into();
        }
    }
    format!("io:{:?}", e.kind())
}

// ------------------------------------------------------------------------------------------------
// running a case
// ------------------------------------------------------------------------------------------------

pub struct CaseOutcome<T> {
    pub result: Option<T>,
    pub panics: Vec<String>,
    pub wall: Duration,
    /// the case thread did not finish within the wall-clock guard (busy loop / deadlock in real time)
    pub wall_hang: bool,
}

/// Run `f` (an async block producing T) for case `case` on a fresh thread with a paused-clock
/// current-thread runtime.  `wall_guard`: real-time bound after which the case is reported hung
/// (the thread is leaked; the caller should finish the run soon).
pub fn run_case<T, F, Fut>(case: u64, wall_guard: Duration, f: F) -> CaseOutcome<T>
where
    T: Send + 'static,
    F: FnOnce() -> Fut + Send + 'static,
    Fut: Future<Output = T>,
{
    let t0 = std::time::Instant::now();
    let (tx, rx) = std::sync::mpsc::channel();
    std::thread::Builder::new()
        .name(format!("case-{case}"))
        .stack_size(8 << 20)
        .spawn(move || {
            CASE.with(|c| c.set(case));
            let rt = tokio::runtime::Builder::new_current_thread().enable_time().start_paused(true).build().expect("rt");
            let r = std::panic::catch_unwind(std::panic::AssertUnwindSafe(|| rt.block_on(async move { f().await })));
            // dropping the runtime drops every task of the case (connections, pump).  After a panic inside the stack
            // some of those destructors panic again while another panic unwinds (=> process abort, seen with mutation M1:
            // AEAD result ignored): such a runtime is leaked instead of dropped.
            if r.is_err() || !panics_of(case).is_empty() {
                std::mem::forget(rt);
            } else {
                let _ = std::panic::catch_unwind(std::panic::AssertUnwindSafe(move || drop(rt)));
            }
            let _ = tx.send(r.ok());
        })
        .expect("spawn case thread");
    match rx.recv_timeout(wall_guard) {
        Ok(result) => CaseOutcome { result, panics: panics_of(case), wall: t0.elapsed(), wall_hang: false },
        Err(_) => CaseOutcome { result: None, panics: panics_of(case), wall: t0.elapsed(), wall_hang: true },
    }
}

// ------------------------------------------------------------------------------------------------
// packet tap: what each endpoint says (through qlog) it sent / processed, per packet
// ------------------------------------------------------------------------------------------------

#[derive(Clone, Debug)]
pub struct PktEv {
    /// "client" | "server" (vantage point of the trace that logged it)
    pub ep: String,
    /// true = packet_received (authenticated and its frames dispatched), false = packet_sent
    pub rcvd: bool,
    /// qlog packet type: initial | handshake | 0RTT | 1RTT | ...
    pub ty: String,
    pub pn: Option<u64>,
    /// qlog frame_type of every frame
    pub frames: Vec<String>,
    /// the numeric fields of the flow-control relevant frames (stream / max_* / *_blocked / reset_stream), in packet order
    pub detail: Vec<FrInfo>,
    /// virtual instant of the event (compare with instants taken inside the case; `Net::start()` is the wire log's origin)
    pub at: Instant,
}

/// Numeric content of one frame as the endpoint's own qlog reports it (absent fields are `None`).
#[derive(Clone, Debug, Default)]
pub struct FrInfo {
    pub ty: String,
    pub stream_id: Option<u64>,
    pub offset: Option<u64>,
    pub length: Option<u64>,
    pub maximum: Option<u64>,
    pub limit: Option<u64>,
    /// "bidirectional" | "unidirectional" (max_streams, streams_blocked)
    pub stream_type: Option<String>,
    pub fin: bool,
}

/// A `QLog` that keeps only `packet_received` / `packet_sent` events, in compact form, tagged with the endpoint.
/// Install with `PairCfg::default().with_qlog(tap.clone())`, read with `tap.take()`.
pub struct PacketTap {
    evs: Arc<Mutex<Vec<PktEv>>>,
}

impl PacketTap {
    pub fn new() -> Arc<PacketTap> {
        Arc::new(PacketTap { evs: Arc::new(Mutex::new(vec![])) })
    }
    pub fn take(&self) -> Vec<PktEv> {
        self.evs.lock().unwrap_or_else(|e| e.into_inner()).clone()
    }
    /// Visit the events recorded from index `from` on; returns the number of events recorded so far
    /// (an adversary that wants to know what the datagram it is looking at carries: `packet_sent` is logged when the
    /// packet is assembled, before its datagram reaches the wire).
    pub fn scan_from(&self, from: usize, mut f: impl FnMut(usize, &PktEv)) -> usize {
        let g = self.evs.lock().unwrap_or_else(|e| e.into_inner());
        for (i, e) in g.iter().enumerate().skip(from) {
            f(i, e);
        }
        g.len()
    }
}

struct TapExp {
    ep: String,
    evs: Arc<Mutex<Vec<PktEv>>>,
}

impl dquic::qevent::telemetry::ExportEvent for TapExp {
    fn emit(&self, event: dquic::qevent::Event) {
        let Ok(v) = serde_json::to_value(&event) else { return };
        let name = v.get("name").and_then(|x| x.as_str()).unwrap_or("");
        let rcvd = name.contains("packet_received");
        if !rcvd && !name.contains("packet_sent") {
            return;
        }
        let d = &v["data"];
        let frames = d["frames"].as_array().map(|a| a.iter().map(|f| f["frame_type"].as_str().unwrap_or("?").to_string()).collect()).unwrap_or_default();
        let detail = d["frames"]
            .as_array()
            .map(|a| {
                a.iter()
                    .filter(|f| {
                        let t = f["frame_type"].as_str().unwrap_or("");
                        t == "stream" || t.starts_with("max_") || t.ends_with("_blocked") || t == "reset_stream" || t == "stop_sending"
                    })
                    .map(|f| FrInfo {
                        ty: f["frame_type"].as_str().unwrap_or("?").to_string(),
                        stream_id: f["stream_id"].as_u64(),
                        offset: f["offset"].as_u64(),
                        length: f["length"].as_u64(),
                        maximum: f["maximum"].as_u64(),
                        limit: f["limit"].as_u64(),
                        stream_type: f["stream_type"].as_str().map(|x| x.to_string()),
                        fin: f["fin"].as_bool().unwrap_or(false),
                    })
                    .collect()
            })
            .unwrap_or_default();
        self.evs.lock().unwrap_or_else(|e| e.into_inner()).push(PktEv {
            ep: self.ep.clone(),
            rcvd,
            ty: d["header"]["packet_type"].as_str().unwrap_or("?").to_string(),
            pn: d["header"]["packet_number"].as_u64(),
            frames,
            detail,
            at: Instant::now(),
        });
    }
    fn filter_event(&self, scheme: &'static str) -> bool {
        scheme.contains("packet_received") || scheme.contains("packet_sent")
    }
    fn filter_raw_data(&self) -> bool {
        false
    }
}

impl dquic::qevent::telemetry::QLog for PacketTap {
    fn new_trace(&self, vantage_point: dquic::qevent::VantagePointType, group_id: dquic::qevent::GroupID) -> dquic::qevent::telemetry::Span {
        use dquic::qevent::telemetry::macro_support as ms;
        let mut fields = ms::current_span_fields();
        fields.insert("group_id", ms::to_value(group_id));
        ms::new_span(Arc::new(TapExp { ep: format!("{vantage_point}"), evs: self.evs.clone() }), fields)
    }
}
