#!/bin/sh
# setup_cmd: build the framework from files on disk only (offline).
set -e
cd "$(dirname "$0")"
export CARGO_NET_OFFLINE=true
python3 tools/gen_registry.py
python3 xlate/xlate.py --repo /repo
(cd lean && lake build GmQuic gmq_model)
for d in */Cargo.toml.in; do (cd "$(dirname "$d")" && cargo build); done
echo setup-ok
