//! Workloads of other properties, re-used verbatim from `harness/src` as the code under observation.
#![allow(dead_code, unused_imports)]
#[path = "../../harness/src/c08.rs"]
pub mod c08;
#[path = "../../harness/src/c11.rs"]
pub mod c11;
#[path = "../../harness/src/c11s.rs"]
pub mod c11s;
#[path = "../../harness/src/c01.rs"]
pub mod c01;
