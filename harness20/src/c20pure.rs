//! C20pure: observational purity of event logging, as a differential experiment on the REAL code.
//!
//! A workload of another property (its unmodified `run` function from `harness/src`, which drives real
//! `qbase` / `qrecovery` objects and prints every observable) is executed with the same seed under several
//! exporter configurations; the transcripts must be byte-identical to the one obtained without any span:
//!
//! ```text
//! case <id>
//! workload <workload> seed=<s> cases=<n> => ok
//! pure <workload> <config> => same | diff
//! ```
//! configs: `control` (no span again: the workload itself must be deterministic), `noop` (NoopExporter),
//! `capture` (every event stored, no raw data), `raw` (stored, raw data requested), `filter` (filter_event
//! false for every scheme), `filter-half` (true only for schemes containing "stream_state"), `feature-off`
//! (the binary of `harness/`, linked without the `telemetry` feature, run as a subprocess; `skipped` when it
//! has not been built).
//!
//! Every captured event is checked by model-independent monitors (shape, JSON round trip, no raw payload
//! unless requested, filter respected).
use std::{
    collections::BTreeMap,
    sync::{
        Arc, Mutex,
        atomic::{AtomicBool, AtomicU64, Ordering},
    },
};

use qevent::{
    Event, GroupID,
    telemetry::{ExportEvent, handy::NoopExporter},
};

use crate::common::{Opts, Rng, Sink, WATCH};

#[derive(Clone, Copy, PartialEq)]
enum Pass { All, Nothing, StreamState }

struct CapX {
    events: Mutex<Vec<Event>>,
    raw: bool,
    pass: Pass,
    emits: AtomicU64,
    asked: AtomicU64,
}

fn half(scheme: &str) -> bool {
    scheme.contains("stream_state")
}

impl ExportEvent for CapX {
    fn emit(&self, event: Event) {
        self.emits.fetch_add(1, Ordering::SeqCst);
        self.events.lock().unwrap_or_else(|e| e.into_inner()).push(event);
    }
    fn filter_event(&self, scheme: &'static str) -> bool {
        self.asked.fetch_add(1, Ordering::SeqCst);
        match self.pass { Pass::All => true, Pass::Nothing => false, Pass::StreamState => half(scheme) }
    }
    fn filter_raw_data(&self) -> bool {
        self.raw
    }
}

struct Workload { name: &'static str, run: &'static str, f: fn(&Opts), cases: u64 }

const WORKLOADS: &[Workload] = &[
    Workload { name: "c01", run: "C01", f: crate::wl::c01::run, cases: 6 },
    Workload { name: "c11s", run: "C11s", f: crate::wl::c11s::run_s, cases: 12 },
    Workload { name: "c11c", run: "C11c", f: crate::wl::c11::run_c, cases: 12 },
    Workload { name: "c08", run: "C08", f: crate::wl::c08::run, cases: 12 },
];

#[path = "c20fail.rs"]
mod c20fail;

/// process-wide record of every panic (thread name, `crate/src/file.rs:line`), replaces the silencing hook of `main`
static PANICS: Mutex<Vec<(String, String)>> = Mutex::new(Vec::new());
fn install_hook() {
    std::panic::set_hook(Box::new(|info| {
        let loc = info.location().map(|l| {
            let f = l.file();
            let f = f.rsplit_once("/src/").map(|(a, b)| format!("{}/src/{}", a.rsplit('/').next().unwrap_or(""), b)).unwrap_or(f.to_string());
            format!("{}:{}", f, l.line())
        }).unwrap_or_else(|| "?".into());
        let t = std::thread::current().name().unwrap_or("?").to_string();
        PANICS.lock().unwrap_or_else(|e| e.into_inner()).push((t, loc));
    }));
}

/// The workload under a span made by a FAILING logger of the repo (LegacySeqLogger over an unusable storage): the trace is
/// created, the logger's writer task gets time to fail, the workload runs inside the span, the writer gets time again.
fn exec_failing(w: &'static Workload, g: Arc<c20fail::Guarded>, seed: u64, out: String, stats: String) -> Option<String> {
    use qevent::telemetry::QLog;
    let h = std::thread::Builder::new().name(format!("c20pure-{}", g.name)).spawn(move || {
        let o = Opts { prop: w.run.into(), seed, cases: w.cases, tier: "quick".into(), out, stats, only_case: None, extra: vec![] };
        let rt = tokio::runtime::Builder::new_current_thread().enable_time().build().expect("rt");
        rt.block_on(async {
            // (some reused workloads install a silencing hook of their own)
            install_hook();
            let span = g.new_trace(qevent::VantagePointType::Client, GroupID::from("abcd".to_string()));
            tokio::time::sleep(std::time::Duration::from_millis(30)).await;
            span.in_scope(|| (w.f)(&o));
            install_hook();
            tokio::time::sleep(std::time::Duration::from_millis(30)).await;
        });
    }).expect("thread");
    let r = match h.join() {
        Ok(()) => None,
        Err(e) => Some(if let Some(s) = e.downcast_ref::<&str>() { s.to_string() } else if let Some(s) = e.downcast_ref::<String>() { s.clone() } else { "?".into() }),
    };
    PROGRESS.fetch_add(1, Ordering::SeqCst);
    r
}

const CONFIGS: &[&str] = &["control", "noop", "capture", "raw", "filter", "filter-half"];

static PROGRESS: AtomicU64 = AtomicU64::new(0);
static FINISHED: AtomicBool = AtomicBool::new(false);

/// The workloads' own `Sink`s share the global watchdog of `common.rs` and switch it off when they finish;
/// this is the replacement: no configuration run completed for 60 s => report a hang, exit 3.
fn backup_watchdog(stats: String) {
    std::thread::spawn(move || {
        let (mut last, mut stalled) = (u64::MAX, 0u64);
        loop {
            std::thread::sleep(std::time::Duration::from_secs(1));
            if FINISHED.load(Ordering::SeqCst) { return; }
            let p = PROGRESS.load(Ordering::SeqCst);
            if p == last { stalled += 1 } else { stalled = 0; last = p; }
            if stalled >= 60 {
                let j = serde_json::json!({
                    "cases": 0, "lines": p, "distinct_nontrivial": 0, "rule": "aborted by the watchdog", "ops": {}, "branches": {}, "samples": [], "notes": {},
                    "monitor_failures": [{ "key": "hang", "case": "?", "what": "a workload did not return within 60 s under some exporter configuration", "trace": [] }],
                });
                let _ = std::fs::write(&stats, serde_json::to_string_pretty(&j).unwrap());
                std::process::exit(3);
            }
        }
    });
}

/// One execution of the workload on a fresh thread (fresh thread-local current span).
/// Returns (panic message if any, the exporter).
fn exec(w: &'static Workload, cfg: &'static str, seed: u64, out: String, stats: String) -> (Option<String>, Arc<CapX>) {
    let (raw, pass) = match cfg {
        "raw" => (true, Pass::All),
        "filter" => (false, Pass::Nothing),
        "filter-half" => (false, Pass::StreamState),
        _ => (false, Pass::All),
    };
    let cap = Arc::new(CapX { events: Mutex::new(vec![]), raw, pass, emits: AtomicU64::new(0), asked: AtomicU64::new(0) });
    let cap2 = cap.clone();
    let h = std::thread::spawn(move || {
        let o = Opts { prop: w.run.into(), seed, cases: w.cases, tier: "quick".into(), out, stats, only_case: None, extra: vec![] };
        let body = || (w.f)(&o);
        match cfg {
            "none" | "control" => body(),
            "noop" => qevent::span!(Arc::new(NoopExporter), group_id = GroupID::from("abcd".to_string())).in_scope(body),
            _ => qevent::span!(cap2, group_id = GroupID::from("abcd".to_string())).in_scope(body),
        }
    });
    let r = match h.join() {
        Ok(()) => None,
        Err(e) => Some(if let Some(s) = e.downcast_ref::<&str>() { s.to_string() } else if let Some(s) = e.downcast_ref::<String>() { s.clone() } else { "?".into() }),
    };
    PROGRESS.fetch_add(1, Ordering::SeqCst);
    (r, cap)
}

fn first_diff(a: &[u8], b: &[u8]) -> Option<String> {
    if a == b { return None; }
    let (sa, sb) = (String::from_utf8_lossy(a), String::from_utf8_lossy(b));
    let (mut la, mut lb) = (sa.lines(), sb.lines());
    let mut n = 1;
    loop {
        match (la.next(), lb.next()) {
            (Some(x), Some(y)) if x == y => n += 1,
            (x, y) => {
                let cut = |s: Option<&str>| s.map(|t| t.chars().take(160).collect::<String>()).unwrap_or_else(|| "<end of transcript>".into());
                return Some(format!("line {}: without span `{}` / here `{}`", n, cut(x), cut(y)));
            }
        }
    }
}

/// Is there, anywhere in the tree, an object key "raw" whose value is an object with a key "data"?
fn has_raw_payload(v: &serde_json::Value) -> bool {
    match v {
        serde_json::Value::Object(m) => m.iter().any(|(k, x)| (k == "raw" && x.get("data").is_some_and(|d| !d.is_null())) || has_raw_payload(x)),
        serde_json::Value::Array(a) => a.iter().any(has_raw_payload),
        _ => false,
    }
}

struct EvStats { total: u64, time_inexact: bool, samples: BTreeMap<String, Vec<serde_json::Value>> }

fn check_events(sink: &mut Sink, st: &mut EvStats, w: &Workload, cfg: &str, cap: &CapX) -> (u64, u64) {
    let evs = std::mem::take(&mut *cap.events.lock().unwrap_or_else(|e| e.into_inner()));
    let mut n_half = 0;
    for e in &evs {
        st.total += 1;
        let v = match serde_json::to_value(e) {
            Ok(v) => v,
            Err(err) => { sink.monitor_fail("shape:to_value-failed", &format!("{}: {:?}", err, e)); continue; }
        };
        let name = v.get("name").and_then(|n| n.as_str()).unwrap_or("?").to_string();
        sink.branch(&format!("event:{}", name));
        sink.branch(&format!("events-in:{}:{}", w.name, cfg));
        if half(&name) { n_half += 1; }
        let shape_ok = v.is_object() && v.get("time").is_some_and(|t| t.is_number()) && v.get("name").is_some_and(|t| t.is_string()) && v.get("data").is_some_and(|t| t.is_object());
        if !shape_ok { sink.monitor_fail(&format!("shape:{}", name), &format!("event is not an object with time:number, name:string, data:object: {}", v)); }
        sink.branch(if v.get("group_id").and_then(|g| g.as_str()) == Some("abcd") { "group_id:inherited-from-span" } else { "group_id:absent-or-other" });
        let (js, rt) = crate::c20span::roundtrip(e);
        match &rt {
            crate::c20span::Rt::Exact => {}
            crate::c20span::Rt::TimeOnly => {
                sink.branch("roundtrip:time-parsed-back-inexactly");
                if !st.time_inexact { st.time_inexact = true; sink.monitor_fail("roundtrip-time-inexact", &format!("from_str(to_string(event)) differs from event in the f64 `time` only; text: {}", js)); }
            }
            crate::c20span::Rt::Fail(why) => sink.monitor_fail(&format!("roundtrip:{}", name), &format!("from_str(to_string(event)) != event: {}; text: {}", why, js)),
        }
        let keys = crate::c20span::top_level_keys(&js);
        let mut sorted = keys.clone();
        sorted.sort();
        if sorted.windows(2).any(|p| p[0] == p[1]) { sink.monitor_fail(&format!("duplicate-key:{}", name), &format!("top-level keys {:?}", keys)); }
        let payload = has_raw_payload(&v);
        if payload { sink.branch(&format!("rawdata-present:{}:{}", cfg, name)); }
        if payload && !cap.raw { sink.monitor_fail(&format!("rawdata-leak:{}", name), &format!("raw payload exported although filter_raw_data() = false: {}", js)); }
        if cap.pass == Pass::StreamState && !half(&name) { sink.monitor_fail(&format!("filter-bypassed:{}", name), &format!("event exported although filter_event(scheme) = false: {}", js)); }
        let s = st.samples.entry(name).or_default();
        if s.len() < 3 {
            let mut v2 = v.clone();
            if let Some(o) = v2.as_object_mut() { o.insert("time".into(), serde_json::json!(0)); }
            if !s.contains(&v2) { s.push(v2); }
        }
    }
    (evs.len() as u64, n_half)
}

pub fn run(o: &Opts) {
    let mut sink = Sink::new_with_stats(&o.out, &o.stats);
    install_hook();
    backup_watchdog(o.stats.clone());
    let dir = std::env::temp_dir().join(format!("gmq-c20pure-{}", std::process::id()));
    std::fs::create_dir_all(&dir).expect("temp dir");
    let p = |n: &str| dir.join(n).to_string_lossy().to_string();
    let off_bin = std::env::current_exe().ok().and_then(|e| e.parent().map(|d| d.join("../../harness/debug/gmq-harness"))).filter(|b| b.exists());
    sink.note("feature_off_binary", serde_json::json!(off_bin.as_ref().map(|b| b.to_string_lossy().to_string())));
    let mut st = EvStats { total: 0, time_inexact: false, samples: BTreeMap::new() };
    // the workloads' sinks write their statistics to the same file (a hang inside a workload is then reported
    // by the shared watchdog into the right file); the final `finish` below overwrites it
    let restore_watch = |stats: &str| {
        if let Some(w) = WATCH.get() {
            let mut g = w.lock().unwrap_or_else(|e| e.into_inner());
            g.done = false;
            g.stats_path = stats.to_string();
            g.hang_secs = 10;
        }
    };
    for i in 0..o.cases {
        if let Some(k) = o.only_case { if k != i { continue; } }
        let mut rng = Rng::new(o.seed, i);
        let w: &'static Workload = &WORKLOADS[(i % WORKLOADS.len() as u64) as usize];
        let seed = rng.next_u64() >> 16;
        sink.case(&format!("{}", i));
        sink.branch(&format!("workload:{}", w.name));
        sink.line(&format!("workload {} seed={} cases={}", w.name, seed, w.cases), "ok");
        sink.pending(&format!("pure {} none", w.name));
        let (panic0, _) = exec(w, "none", seed, p("none.txt"), o.stats.clone());
        restore_watch(&o.stats);
        let base = std::fs::read(p("none.txt")).unwrap_or_default();
        if let Some(m) = &panic0 { sink.branch(&format!("workload-panics-without-span:{}", w.name)); sink.note("workload_panic", serde_json::json!(m)); }
        let mut n_capture = None;
        let mut n_capture_half = 0;
        let mut all_same = true;
        for cfg in CONFIGS {
            let op = format!("pure {} {}", w.name, cfg);
            sink.pending(&op);
            let file = p(&format!("{}.txt", cfg));
            let (panic, cap) = exec(w, *cfg, seed, file.clone(), o.stats.clone());
            restore_watch(&o.stats);
            let got = std::fs::read(&file).unwrap_or_default();
            let d = first_diff(&base, &got);
            let same = d.is_none() && panic == panic0;
            all_same &= same;
            sink.line(&op, if same { "same" } else { "diff" });
            if !same {
                let key = if *cfg == "control" { format!("harness:nondeterministic-workload:{}", w.name) } else { format!("purity:{}:{}", w.name, cfg) };
                let what = match (&d, &panic) {
                    (Some(d), _) => format!("seed {} cases {}: {}", seed, w.cases, d),
                    (None, here) => format!("seed {} cases {}: panic without span = {:?}, here = {:?}", seed, w.cases, panic0, here),
                };
                sink.monitor_fail(&key, &what);
            }
            // the exporter side
            let emits = cap.emits.load(Ordering::SeqCst);
            let asked = cap.asked.load(Ordering::SeqCst);
            match *cfg {
                "capture" | "raw" | "filter-half" => {
                    let (n, n_half) = check_events(&mut sink, &mut st, w, cfg, &cap);
                    match (*cfg, n_capture) {
                        ("capture", _) => { n_capture = Some(n); n_capture_half = n_half; }
                        ("raw", Some(m)) if m != n => sink.monitor_fail(&format!("event-count:{}:raw", w.name), &format!("{} events with raw data requested, {} without", n, m)),
                        ("filter-half", Some(_)) if n_capture_half != n => sink.monitor_fail(&format!("event-count:{}:filter-half", w.name), &format!("{} events pass the stream_state filter, but {} stream_state events were exported without filter", n, n_capture_half)),
                        _ => {}
                    }
                }
                "filter" => {
                    if emits != 0 { sink.monitor_fail(&format!("filter-bypassed:{}", w.name), &format!("emit called {} times although filter_event is false for every scheme", emits)); }
                    if asked > 0 { sink.branch("filter:asked"); }
                }
                _ => {}
            }
        }
        // failing storages / sinks of the repo's own sequential logger (see c20fail.rs)
        for g in c20fail::failing_configs(&c20fail::scratch("pure")) {
            let op = format!("pure {} {}", w.name, g.name);
            sink.pending(&op);
            let file = p(&format!("{}.txt", g.name));
            let before = PANICS.lock().unwrap_or_else(|e| e.into_inner()).len();
            let panic = exec_failing(w, g.clone(), seed, file.clone(), o.stats.clone());
            restore_watch(&o.stats);
            let new_panics: Vec<(String, String)> = PANICS.lock().unwrap_or_else(|e| e.into_inner()).iter().skip(before).cloned().collect();
            // panics of the workload itself (same as without a span) are not the logger's
            let new_panics: Vec<(String, String)> = new_panics.into_iter().filter(|(_, l)| l.starts_with("qevent/")).collect();
            let caught = g.caught.lock().unwrap_or_else(|e| e.into_inner()).clone();
            let got = std::fs::read(&file).unwrap_or_default();
            let d = first_diff(&base, &got);
            let same = d.is_none() && panic == panic0;
            all_same &= same;
            sink.line(&op, if same { "same" } else { "diff" });
            sink.branch(&format!("failing:{}:{}", g.name, if new_panics.is_empty() { "no-panic" } else if caught.is_empty() { "panic-contained-in-logger-task" } else { "panic-in-caller" }));
            if !caught.is_empty() {
                sink.monitor_fail(
                    &format!("panic:reaches-caller:{}:{}", caught[0], new_panics.first().map(|(_, l)| c20fail::site_file(l)).unwrap_or_default()),
                    &format!("logger {}: a panic unwound out of QLog::{} into the thread that creates the trace / emits events: {:?}", g.name, caught[0], new_panics),
                );
            } else {
                for (t, loc) in &new_panics {
                    sink.monitor_fail(
                        &format!("logger-task-panic:{}", c20fail::site_file(loc)),
                        &format!("logger {}: panic at {} (thread {}), contained in the task the logger spawned for itself (the trace is lost, the caller is not affected)", g.name, loc, t),
                    );
                }
            }
            if !same {
                let what = match (&d, &panic) {
                    (Some(d), _) => format!("seed {} cases {}: {}", seed, w.cases, d),
                    (None, here) => format!("seed {} cases {}: panic without span = {:?}, here = {:?}", seed, w.cases, panic0, here),
                };
                sink.monitor_fail(&format!("purity:{}:{}", w.name, g.name), &what);
            }
        }
        let _ = std::fs::remove_dir_all(c20fail::scratch("pure"));
        // the binary without the telemetry feature
        let op = format!("pure {} feature-off", w.name);
        match &off_bin {
            None => { sink.line(&op, "skipped"); sink.branch("feature-off:skipped"); }
            Some(bin) => {
                sink.pending(&op);
                let r = std::process::Command::new(bin)
                    .args([w.run, "--seed", &seed.to_string(), "--cases", &w.cases.to_string(), "--out", &p("off.txt"), "--stats", &p("off.json")])
                    .stdout(std::process::Stdio::null())
                    .stderr(std::process::Stdio::null())
                    .status();
                PROGRESS.fetch_add(1, Ordering::SeqCst);
                let got = std::fs::read(p("off.txt")).unwrap_or_default();
                let ok = matches!(&r, Ok(s) if s.success());
                match (ok, first_diff(&base, &got)) {
                    (true, None) => { sink.line(&op, "same"); sink.branch("feature-off:same"); }
                    (_, d) => {
                        all_same = false;
                        sink.line(&op, "diff");
                        sink.monitor_fail(&format!("purity:{}:feature-off", w.name), &format!("seed {} cases {}: exit {:?}; {}", seed, w.cases, r.map(|s| s.code()).ok(), d.unwrap_or_default()));
                    }
                }
            }
        }
        if all_same && n_capture.unwrap_or(0) > 0 { sink.nontrivial(); }
    }
    if st.total == 0 && o.only_case.is_none() {
        sink.monitor_fail("purity:no-events", "no event was captured over the whole run: the differential leg is vacuous");
    }
    sink.note("events_total", serde_json::json!(st.total));
    sink.note("sample_events", serde_json::json!(st.samples));
    sink.note("workloads", serde_json::json!(WORKLOADS.iter().map(|w| format!("{} = run {} x {} cases", w.name, w.run, w.cases)).collect::<Vec<_>>()));
    let _ = std::fs::remove_dir_all(&dir);
    FINISHED.store(true, Ordering::SeqCst);
    restore_watch(&o.stats);
    sink.finish(&o.stats, "per case one workload of another property (C01 stream pair / C11s DataStreams endpoint / C11c flow controllers / C08 RecvBuf; real qrecovery+qbase code, unmodified run functions, fresh seed) executed under no span, no span again, NoopExporter, capturing exporter without and with raw data, all-filtering and half-filtering exporter and by the telemetry-less binary; transcripts compared byte for byte with the no-span run; non-trivial = all comparisons agree and at least one event was captured; distinct by hash of the case transcript");
}

pub const RUNS: &[(&str, fn(&Opts))] = &[("C20pure", run)];
