//! C20 — FAILING qlog storages / exporters built from the repo's own `handy::LegacySeqLogger` (shared by harness20's
//! `C20pure` and harness2's `c20_e2e` through `#[path]`).
//!
//! Configurations: the sqlog directory does not exist / is a regular file / is read-only / is removed after the first
//! trace was created (mid-run) / exists (sanity), and a storage whose sink answers `Err` on every write, or on flush and
//! shutdown only.  `Guarded` wraps a `QLog` WITHOUT changing its behaviour: a panic that unwinds out of
//! `QLog::new_trace` or out of `ExportEvent::emit` — i.e. into the thread / task that builds the connection, creates
//! spans or emits events — is recorded and then resumed.  Panics that the process-wide hook sees but that were not caught
//! here stayed inside a task the logger spawned for itself.
#![allow(dead_code)]
use std::{
    future::Future,
    io,
    path::{Path, PathBuf},
    pin::Pin,
    sync::{Arc, Mutex},
    task::{Context, Poll},
};

use qevent::{
    Event, GroupID, VantagePointType,
    telemetry::{
        ExportEvent, QLog, Span,
        handy::{LegacySeqLogger, TelemetryStorage},
    },
};

/// a sink that fails: `fail_write` = every write is an error; otherwise writes are swallowed, flush / shutdown fail
pub struct ErrSink {
    fail_write: bool,
}

impl tokio::io::AsyncWrite for ErrSink {
    fn poll_write(self: Pin<&mut Self>, _: &mut Context<'_>, buf: &[u8]) -> Poll<io::Result<usize>> {
        if self.fail_write { Poll::Ready(Err(io::Error::other("sink: write refused"))) } else { Poll::Ready(Ok(buf.len())) }
    }
    fn poll_flush(self: Pin<&mut Self>, _: &mut Context<'_>) -> Poll<io::Result<()>> {
        Poll::Ready(Err(io::Error::other("sink: flush refused")))
    }
    fn poll_shutdown(self: Pin<&mut Self>, _: &mut Context<'_>) -> Poll<io::Result<()>> {
        Poll::Ready(Err(io::Error::other("sink: shutdown refused")))
    }
}

#[derive(Clone)]
pub struct ErrStorage {
    pub fail_write: bool,
}

impl TelemetryStorage for ErrStorage {
    #[allow(clippy::manual_async_fn)]
    fn join(&self, _: &str) -> impl Future<Output = impl tokio::io::AsyncWrite + Send + Unpin + 'static> + Send + 'static {
        let fail_write = self.fail_write;
        async move { ErrSink { fail_write } }
    }
}

pub type Caught = Arc<Mutex<Vec<String>>>;

struct GuardExp {
    inner: Arc<dyn ExportEvent>,
    caught: Caught,
}

impl ExportEvent for GuardExp {
    fn emit(&self, event: Event) {
        match std::panic::catch_unwind(std::panic::AssertUnwindSafe(|| self.inner.emit(event))) {
            Ok(()) => {}
            Err(p) => {
                self.caught.lock().unwrap_or_else(|e| e.into_inner()).push("emit".into());
                std::panic::resume_unwind(p)
            }
        }
    }
    fn filter_event(&self, scheme: &'static str) -> bool {
        self.inner.filter_event(scheme)
    }
    fn filter_raw_data(&self) -> bool {
        self.inner.filter_raw_data()
    }
}

pub struct Guarded {
    pub name: &'static str,
    inner: Box<dyn QLog + Send + Sync>,
    /// "new_trace" / "emit" for every panic that unwound into the caller
    pub caught: Caught,
    pub traces: Arc<Mutex<u64>>,
    /// executed once, after the first trace was created (directory removed mid-run)
    after_first: Mutex<Option<Box<dyn FnOnce() + Send>>>,
}

impl QLog for Guarded {
    fn new_trace(&self, vantage_point: VantagePointType, group_id: GroupID) -> Span {
        let r = std::panic::catch_unwind(std::panic::AssertUnwindSafe(|| self.inner.new_trace(vantage_point, group_id)));
        *self.traces.lock().unwrap() += 1;
        let span = match r {
            Ok(s) => s,
            Err(p) => {
                self.caught.lock().unwrap_or_else(|e| e.into_inner()).push("new_trace".into());
                std::panic::resume_unwind(p)
            }
        };
        if let Some(f) = self.after_first.lock().unwrap().take() {
            f();
        }
        // the same span with its exporter wrapped (fields and filters untouched)
        let (exp, fields) = span.in_scope(|| (qevent::telemetry::macro_support::current_span_exporter(), qevent::telemetry::macro_support::current_span_fields()));
        qevent::telemetry::macro_support::new_span(Arc::new(GuardExp { inner: exp, caught: self.caught.clone() }), fields)
    }
}

fn guarded(name: &'static str, inner: Box<dyn QLog + Send + Sync>, after_first: Option<Box<dyn FnOnce() + Send>>) -> Arc<Guarded> {
    Arc::new(Guarded { name, inner, caught: Arc::new(Mutex::new(vec![])), traces: Arc::new(Mutex::new(0)), after_first: Mutex::new(after_first) })
}

/// Fresh instances of every failing configuration under the scratch directory `tmp` (created / cleaned here).
pub fn failing_configs(tmp: &Path) -> Vec<Arc<Guarded>> {
    let _ = std::fs::remove_dir_all(tmp);
    std::fs::create_dir_all(tmp).expect("scratch dir");
    let j = |a: &Path, b: &str| -> PathBuf { Path::join(a, b) };
    let ok_dir = j(tmp, "ok");
    std::fs::create_dir_all(&ok_dir).unwrap();
    let missing = j(&j(&j(tmp, "missing"), "never"), "created");
    let a_file = j(tmp, "a-file");
    std::fs::write(&a_file, b"x").unwrap();
    let ro = j(tmp, "read-only");
    std::fs::create_dir_all(&ro).unwrap();
    #[cfg(unix)]
    {
        use std::os::unix::fs::PermissionsExt;
        let _ = std::fs::set_permissions(&ro, std::fs::Permissions::from_mode(0o555));
    }
    let vanishing = j(tmp, "vanishing");
    std::fs::create_dir_all(&vanishing).unwrap();
    let v2 = vanishing.clone();
    vec![
        guarded("seq-ok-dir", Box::new(LegacySeqLogger::new(ok_dir)), None),
        guarded("seq-missing-dir", Box::new(LegacySeqLogger::new(missing)), None),
        guarded("seq-path-is-file", Box::new(LegacySeqLogger::new(a_file)), None),
        guarded("seq-readonly-dir", Box::new(LegacySeqLogger::new(ro)), None),
        guarded("seq-dir-removed", Box::new(LegacySeqLogger::new(vanishing)), Some(Box::new(move || { let _ = std::fs::remove_dir_all(&v2); }))),
        guarded("seq-write-error", Box::new(LegacySeqLogger::new(ErrStorage { fail_write: true })), None),
        guarded("seq-flush-error", Box::new(LegacySeqLogger::new(ErrStorage { fail_write: false })), None),
    ]
}

pub fn scratch(tag: &str) -> PathBuf {
    Path::join(&std::env::temp_dir(), format!("gmq-c20fail-{}-{}", tag, std::process::id()))
}

/// `crate/src/file.rs` of a panic location (line numbers are left out of monitor keys: they move with unrelated edits)
pub fn site_file(loc: &str) -> String {
    loc.rsplit_once(':').map(|(f, _)| f.to_string()).unwrap_or_else(|| loc.to_string())
}
