//! C20ser — differential run of the serde-derive model against the REAL `serde_json` for every covered qevent type.
//!
//! The translator (xlate/gen_qevent.py) leaves the schema of every covered derived type in `.build/c20_schema.json` and a
//! monomorphic dispatch table in `c20types.rs`.  Per case: pick a covered type, build a random value of it *type-directed
//! from the schema* (generic value tokens + the JSON text this generator expects), let the real `from_str::<T>` build the
//! Rust value `x` from that text, and record
//!   `ser <Type> <value tokens> => <hex(to_string(&x))> rt=<from_str(to_string(&x)) == x>`
//! The Lean driver recomputes `ser schema value` (must be the same text) and `de schema (ser schema value) == value`
//! (must be the same bit).  Monitors (never consult the model): the generator's text is accepted by `from_str::<T>`,
//! `to_string(x)` is that text again, and the round trip `from_str(to_string(x)) == x`.
use crate::common::{hex, Opts, Rng, Sink};
use serde::{de::DeserializeOwned, Serialize};
use serde_json::Value;

#[path = "c20types.rs"]
mod c20types;

pub struct Probe {
    pub parsed: Result<String, String>, // to_string(from_str(json))
    pub rt: Result<bool, String>,       // from_str(to_string(x)) == x
}

pub fn probe<T: Serialize + DeserializeOwned + PartialEq>(json: &str) -> Probe {
    match serde_json::from_str::<T>(json) {
        Err(e) => Probe { parsed: Err(e.to_string()), rt: Err("unparsed".into()) },
        Ok(x) => {
            let s = serde_json::to_string(&x).unwrap();
            let rt = match serde_json::from_str::<T>(&s) {
                Ok(y) => Ok(y == x),
                Err(e) => Err(e.to_string()),
            };
            Probe { parsed: Ok(s), rt }
        }
    }
}

struct Gen<'a> {
    types: &'a serde_json::Map<String, Value>,
    rng: Rng,
    amb: Option<String>, // set when a possibly non-canonical untagged alternative was chosen (enum type name)
    cur: Vec<String>,
    boundary: bool,
}

fn jstr(s: &str) -> String {
    serde_json::to_string(s).unwrap()
}
fn hexs(s: &str) -> String {
    hex(s.as_bytes())
}

const ALPHA: &[u8] = b"abcxyz019_:. -\"\\";

impl<'a> Gen<'a> {
    fn string(&mut self) -> String {
        // never equal to an enum variant name / crypto_error pattern (those are produced on purpose elsewhere)
        let n = self.rng.below(5) as usize;
        let mut s = String::from("z9");
        for _ in 0..n {
            s.push(*self.rng.pick(ALPHA) as char);
        }
        if self.rng.chance(1, 12) { String::new() } else { s }
    }
    fn any(&mut self, toks: &mut Vec<String>) -> String {
        match self.rng.below(3) {
            0 => { let s = self.string(); toks.push(format!("js{}", hexs(&s))); jstr(&s) }
            1 => { let n = self.rng.below(1000); toks.push(format!("ji{n}")); n.to_string() }
            _ => { let b = self.rng.chance(1, 2); toks.push(format!("jb{}", b as u8)); b.to_string() }
        }
    }
    /// names (as JSON text) an earlier alternative would also accept?  conservative: true = "might"
    fn might_accept(&self, s: &Value, json: &str) -> bool {
        let s = self.deref(s);
        let is_str = json.starts_with('"');
        let is_obj = json.starts_with('{');
        let is_num = json.chars().next().map(|c| c.is_ascii_digit() || c == '-').unwrap_or(false);
        match s["k"].as_str().unwrap() {
            "str" => is_str && (s.get("gen").is_none() || json.starts_with("\"crypto_error_0x1")),
            "hex" => is_str && json[1..].starts_with(s.get("pfx").and_then(|p| p.as_str()).unwrap_or("")),
            "unitEnum" => is_str && s["names"].as_array().unwrap().iter().any(|n| jstr(n.as_str().unwrap()) == json),
            "int" | "flt" => is_num,
            "bool" => json == "true" || json == "false",
            "any" => true,
            "opt" => json == "null" || self.might_accept(&s["s"], json),
            "seq" => json.starts_with('['),
            "untagged" => s["alts"].as_array().unwrap().iter().any(|a| self.might_accept(&a["s"], json)),
            "refine" => self.might_accept(&s["s"], json),
            "struct" => {
                // an object that lacks a required key is rejected (`missing field`)
                is_obj && match serde_json::from_str::<Value>(json) {
                    Ok(Value::Object(m)) => s["fields"].as_array().unwrap().iter().all(|f| f["kind"] != "req" || m.contains_key(f["name"].as_str().unwrap())),
                    _ => true,
                }
            }
            _ => is_obj,
        }
    }
    fn deref<'b>(&'b self, s: &'b Value) -> &'b Value {
        if s["k"] == "ref" { &self.types[s["name"].as_str().unwrap()] } else { s }
    }
    /// returns the JSON text; pushes the value tokens
    fn val(&mut self, s: &Value, toks: &mut Vec<String>, depth: u32) -> (String, String) {
        if s["k"] == "ref" {
            let name = s["name"].as_str().unwrap().to_string();
            let t = self.types[&name].clone();
            self.cur.push(name);
            let r = self.val(&t, toks, depth);
            self.cur.pop();
            return r;
        }
        match s["k"].as_str().unwrap() {
            "bool" => { let b = self.rng.chance(1, 2); toks.push(format!("b{}", b as u8)); (b.to_string(), b.to_string()) }
            "int" => {
                let lo = s["lo"].as_i64().map(|x| x as i128).unwrap_or_else(|| s["lo"].as_u64().unwrap() as i128);
                let hi = s["hi"].as_i64().map(|x| x as i128).unwrap_or_else(|| s["hi"].as_u64().unwrap() as i128);
                let n: i128 = match self.rng.below(6) {
                    0 => lo,
                    1 => hi,
                    2 => { self.boundary = true; if self.rng.chance(1, 2) { hi - 1 } else { lo + 1 } }
                    3 => 0.max(lo),
                    _ => lo + (self.rng.next_u64() as i128 % (hi - lo + 1)).abs(),
                };
                toks.push(format!("i{n}"));
                (n.to_string(), n.to_string())
            }
            "flt" => {
                let n = self.rng.below(1 << 16);
                let t = if n % 8 == 0 { format!("{}.0", n / 8) } else { format!("{}", n as f64 / 8.0) };
                toks.push(format!("f{t}"));
                (t.clone(), t)
            }
            "str" => {
                let t = if s.get("gen").is_some() { format!("crypto_error_0x1{:02x}", self.rng.below(256)) } else { self.string() };
                toks.push(format!("s{}", hexs(&t)));
                (jstr(&t), jstr(&t))
            }
            "hex" => {
                let n = match s["len"].as_u64() {
                    Some(n) => n as usize,
                    None => self.rng.below(s.get("max").and_then(|m| m.as_u64()).unwrap_or(6) + 1) as usize,
                };
                let t = hex(&self.rng.bytes(n));
                let t = if t == "-" { String::new() } else { t };
                let t = format!("{}{}", s.get("pfx").and_then(|p| p.as_str()).unwrap_or(""), t);
                toks.push(format!("s{}", hexs(&t)));
                (jstr(&t), jstr(&t))
            }
            "any" => { let mut t = vec![]; let j = self.any(&mut t); toks.push(t[0].clone()); (j.clone(), j) }
            "opt" => {
                if self.rng.chance(1, 3) { toks.push("n".into()); ("null".into(), "null".into()) } else { toks.push("S".into()); self.val(&s["s"], toks, depth) }
            }
            "seq" => {
                let n = match s["len"].as_u64() { Some(n) => n, None => if depth > 3 { 0 } else { self.rng.below(3) } };
                toks.push(format!("l{n}"));
                let parts: Vec<(String, String)> = (0..n).map(|_| self.val(&s["s"], toks, depth + 1)).collect();
                (format!("[{}]", parts.iter().map(|p| p.0.clone()).collect::<Vec<_>>().join(",")),
                 format!("[{}]", parts.iter().map(|p| p.1.clone()).collect::<Vec<_>>().join(",")))
            }
            "map" => {
                let n = self.rng.below(2);
                toks.push(format!("m{n}"));
                let mut parts = vec![];
                for _ in 0..n {
                    let k = format!("x_{}", self.rng.below(50));
                    toks.push(hexs(&k));
                    let j = self.any(toks);
                    parts.push(format!("{}:{}", jstr(&k), j));
                }
                let j = format!("{{{}}}", parts.join(","));
                (j.clone(), j)
            }
            "struct" => {
                let fields = s["fields"].as_array().unwrap();
                let rest = s["rest"].as_bool().unwrap();
                let nrest = if rest { self.rng.below(2) } else { 0 };
                toks.push(format!("r{},{}", fields.len(), nrest));
                let mut parts: Vec<String> = vec![];
                let mut full: Vec<String> = vec![];
                for f in fields {
                    let name = jstr(f["name"].as_str().unwrap());
                    match f["kind"].as_str().unwrap() {
                        "req" => { let j = self.val(&f["s"], toks, depth + 1); parts.push(format!("{name}:{}", j.0)); full.push(format!("{name}:{}", j.1)); }
                        k @ ("opt" | "optNull") => {
                            if self.rng.chance(2, 5) || depth > 5 {
                                toks.push("n".into());
                                if k == "optNull" { parts.push(format!("{name}:null")); full.push(format!("{name}:null")); }
                            } else {
                                toks.push("S".into());
                                let j = self.val(&f["s"], toks, depth + 1);
                                parts.push(format!("{name}:{}", j.0));
                                full.push(format!("{name}:{}", j.1));
                            }
                        }
                        "skipEmpty" => {
                            let j = self.val(&f["s"], toks, depth + 1);
                            if j.0 != "[]" && j.0 != "{}" { parts.push(format!("{name}:{}", j.0)); }
                            // the text handed to from_str always carries the key (serde answers `missing field` when the
                            // field has no `default`; that is the finding, the monitor sees it on the way back)
                            full.push(format!("{name}:{}", j.1));
                        }
                        "flat" => {
                            let j = self.val(&f["s"], toks, depth + 1);
                            let inner = &j.0[1..j.0.len() - 1];
                            if !inner.is_empty() { parts.push(inner.to_string()); }
                            let inner = &j.1[1..j.1.len() - 1];
                            if !inner.is_empty() { full.push(inner.to_string()); }
                        }
                        other => panic!("field kind {other}"),
                    }
                }
                for _ in 0..nrest {
                    let k = format!("x_{}", self.rng.below(50));
                    toks.push(hexs(&k));
                    let j = self.any(toks);
                    parts.push(format!("{}:{}", jstr(&k), j));
                    full.push(format!("{}:{}", jstr(&k), j));
                }
                (format!("{{{}}}", parts.join(",")), format!("{{{}}}", full.join(",")))
            }
            "refine" => {
                // read as the inner schema, then validated: only values that pass the validation are values of the type
                // (the rejected combination is probed with a hand-built value in `amb_probes`)
                loop {
                    let mut t = vec![];
                    let j = self.val(&s["s"], &mut t, depth);
                    let ok = match s["guard"].as_str().unwrap() {
                        "reference_time" => {
                            let v: Value = serde_json::from_str(&j.0).unwrap();
                            !(v["clock_type"] == "monotaonic" && v["epoch"] != "Unknow")
                        }
                        other => panic!("guard {other}"),
                    };
                    if ok {
                        toks.extend(t);
                        return j;
                    }
                }
            }
            "unitEnum" => {
                let names = s["names"].as_array().unwrap();
                let i = self.rng.below(names.len() as u64) as usize;
                toks.push(format!("v{i}"));
                toks.push("n".into());
                (jstr(names[i].as_str().unwrap()), jstr(names[i].as_str().unwrap()))
            }
            "untagged" => {
                let alts = s["alts"].as_array().unwrap();
                // canonical choice most of the time; sometimes any alternative (may be shadowed by an earlier one)
                for _attempt in 0..8 {
                    let i = self.rng.below(alts.len() as u64) as usize;
                    let mut t = vec![];
                    let save = self.rng.clone();
                    let j = self.val(&alts[i]["s"], &mut t, depth + 1);
                    let shadow = alts[..i].iter().any(|a| self.might_accept(&a["s"], &j.0));
                    // a shadowed alternative cannot be built through from_str (it comes back as the earlier alternative):
                    // only canonical values here; the shadowed ones are probed with hand-built values in `amb_probes`
                    if shadow {
                        let _ = save;
                        continue;
                    }
                    toks.push(format!("v{i}"));
                    toks.extend(t);
                    return j;
                }
                // fall back to the first alternative (always canonical)
                toks.push("v0".into());
                self.val(&alts[0]["s"], toks, depth + 1)
            }
            "adjacent" => {
                let alts = s["alts"].as_array().unwrap();
                let i = self.rng.below(alts.len() as u64) as usize;
                toks.push(format!("v{i}"));
                let j = self.val(&alts[i]["s"], toks, depth + 1);
                let f = |b: &str| format!("{{{}:{},{}:{}}}", jstr(s["tag"].as_str().unwrap()), jstr(alts[i]["name"].as_str().unwrap()), jstr(s["content"].as_str().unwrap()), b);
                (f(&j.0), f(&j.1))
            }
            "internal" => {
                let alts = s["alts"].as_array().unwrap();
                let i = self.rng.below(alts.len() as u64) as usize;
                toks.push(format!("v{i}"));
                let j = self.val(&alts[i]["s"], toks, depth + 1);
                let tag = format!("{}:{}", jstr(s["tag"].as_str().unwrap()), jstr(alts[i]["name"].as_str().unwrap()));
                let f = |j: &str| { let inner = &j[1..j.len() - 1]; if inner.is_empty() { format!("{{{tag}}}") } else { format!("{{{tag},{inner}}}") } };
                (f(&j.0), f(&j.1))
            }
            other => panic!("schema kind {other}"),
        }
    }
}

fn schema_path() -> std::path::PathBuf {
    // <root>/.build/harness20/debug/gmq-harness -> <root>/.build/c20_schema.json
    let exe = std::env::current_exe().unwrap();
    exe.parent().unwrap().parent().unwrap().parent().unwrap().join("c20_schema.json")
}

pub fn run(o: &Opts) {
    let text = std::fs::read_to_string(schema_path()).expect(".build/c20_schema.json (written by xlate/gen_qevent.py)");
    let side: Value = serde_json::from_str(&text).unwrap();
    let types = side["types"].as_object().unwrap();
    let order: Vec<String> = side["order"].as_array().unwrap().iter().map(|x| x.as_str().unwrap().to_string()).collect();
    let mut sink = Sink::new_with_stats(&o.out, &o.stats);
    sink.note("covered_types", serde_json::json!(order.len()));
    sink.note("total_derived", side["total_derived"].clone());
    sink.note("uncovered", side["uncovered"].clone());
    let mut seen_types = std::collections::BTreeSet::new();
    for case in 0..o.cases {
        if let Some(c) = o.only_case { if c != case { continue; } }
        let mut rng = Rng::new(o.seed, case);
        // every covered type in turn first, then random with a bias towards the envelope and the event payloads
        let name = if (case as usize) < order.len() * 4 { order[case as usize % order.len()].clone() }
                   else if rng.chance(1, 4) { "Event".to_string() } else { rng.pick(&order).clone() };
        if !types.contains_key(&name) { continue; }
        let mut g = Gen { types, rng, amb: None, cur: vec![name.clone()], boundary: false };
        let mut toks = vec![];
        let (json, full) = g.val(&types[&name], &mut toks, 0);
        sink.case(&case.to_string());
        seen_types.insert(name.clone());
        let op = format!("ser {} {}", name, toks.join(" "));
        sink.pending(&op);
        let p = match crate::common::catch(|| c20types::probe(&name, &full)) {
            Ok(Some(p)) => p,
            Ok(None) => { sink.line(&op, "NOTYPE"); continue; }
            Err(m) => { sink.line(&op, "PANIC"); sink.monitor_fail(&format!("panic:serde:{name}"), &m); continue; }
        };
        sink.branch(&format!("type:{name}"));
        if g.boundary { sink.branch("int-boundary"); }
        match (&p.parsed, &p.rt) {
            (Err(e), _) => {
                sink.line(&op, &format!("REJECT {}", hexs(&full)));
                sink.monitor_fail(&format!("generator-rejected:{name}"), &format!("from_str::<{name}> rejected the text the schema predicts: {full} ({e})"));
            }
            (Ok(s), rt) => {
                let rtb = matches!(rt, Ok(true));
                sink.line(&op, &format!("{} rt={}", hexs(s), rtb as u8));
                if toks.len() > 3 { sink.nontrivial(); }
                if *s != json {
                    sink.monitor_fail(&format!("ser-text:{name}"), &format!("to_string(from_str(j)) != j: j={json} got={s}"));
                }
                match rt {
                    Ok(true) => { sink.branch("rt=1"); }
                    Err(e) if e.contains("missing field") => {
                        sink.branch("rt=0:missing-field");
                        sink.monitor_fail("roundtrip:skip-without-default", &format!("{name}: to_string gives {s}, from_str of it fails: {e}"));
                    }
                    Err(e) => {
                        sink.branch("rt=0:error");
                        sink.monitor_fail(&format!("roundtrip:error:{name}"), &format!("{name}: to_string gives {s}, from_str of it fails: {e}"));
                    }
                    Ok(false) => {
                        sink.branch("rt=0:different-value");
                        let key = match &g.amb { Some(t) => format!("roundtrip:untagged-ambiguous:{t}"), None => format!("roundtrip:different-value:{name}") };
                        sink.monitor_fail(&key, &format!("{name}: {s} parses back to a different value"));
                    }
                }
            }
        }
    }
    sink.note("types_exercised", serde_json::json!(seen_types.len()));
    sink.finish(&o.stats, "value with more than 3 tokens");
}

/// Hand-built NON-canonical values of the untagged enums whose alternatives overlap (the model says they do not read back
/// as themselves; `from_str` cannot build them, so they are constructed directly).
fn amb_probes() -> Vec<(&'static str, String, String, bool)> {
    use qevent::quic::connectivity::{ConnectionState, GranularConnectionStates};
    fn one<T: Serialize + DeserializeOwned + PartialEq>(x: T) -> (String, bool) {
        let s = serde_json::to_string(&x).unwrap();
        let rt = serde_json::from_str::<T>(&s).map(|y| y == x).unwrap_or(false);
        (s, rt)
    }
    let mut v = vec![];
    let (s, rt) = one(ConnectionState::Granular(GranularConnectionStates::Closed));
    v.push(("quic::connectivity::ConnectionState", "v1 v5 n".to_string(), s, rt));
    let app: qevent::quic::ApplicationError = serde_json::from_str("\"no_error\"").unwrap();
    let (s, rt) = one(qevent::quic::ConnectionCloseErrorCode::ApplicationError(app));
    v.push(("quic::ConnectionCloseErrorCode", format!("v2 s{}", hexs("no_error")), s, rt));
    let app: qevent::quic::ApplicationError = serde_json::from_str("\"crypto_error_0x1ab\"").unwrap();
    let (s, rt) = one(qevent::quic::ConnectionCloseErrorCode::ApplicationError(app));
    v.push(("quic::ConnectionCloseErrorCode", format!("v2 s{}", hexs("crypto_error_0x1ab")), s, rt));
    let (s, rt) = one(qevent::TimeClockType::Custom("system".to_owned()));
    v.push(("TimeClockType", format!("v1 s{}", hexs("system")), s, rt));
    let (s, rt) = one(qevent::TimeEpoch::RFC3339DateTime(String::from("Unknow").into()));
    v.push(("TimeEpoch", format!("v1 s{}", hexs("Unknow")), s, rt));
    let (s, rt) = one(qevent::legacy::quic::StreamDataLocation::Other("user".to_owned()));
    v.push(("legacy::quic::StreamDataLocation", format!("v1 s{}", hexs("user")), s, rt));
    // ReferenceTime: the builder accepts clock_type = monotonic with the default epoch, `try_from` validation rejects it on read
    let mut b = qevent::ReferenceTime::builder();
    b.clock_type(qevent::TimeClockType::Monotaonic);
    let (s, rt) = one(b.build());
    v.push(("ReferenceTime", format!("r3,0 v0 v1 n v1 s{} n", hexs("1970-01-01T00:00:00.000Z")), s, rt));
    v
}

pub fn run_amb(o: &Opts) {
    let mut sink = Sink::new_with_stats(&o.out, &o.stats);
    for (i, (ty, toks, s, rt)) in amb_probes().into_iter().enumerate() {
        sink.case(&i.to_string());
        sink.line(&format!("ser {ty} {toks}"), &format!("{} rt={}", hexs(&s), rt as u8));
        sink.nontrivial();
        if !rt && ty == "ReferenceTime" {
            sink.monitor_fail("roundtrip:reference-time-validation", &format!("ReferenceTime built by its own builder (clock_type monotonic, default epoch) serialises to {s}, which its own Deserialize (try_from validation) rejects"));
        } else if !rt {
            sink.monitor_fail(&format!("roundtrip:untagged-ambiguous:{ty}"), &format!("{ty}: the hand-built value serialises to {s}, which parses back to a different value (an earlier untagged alternative accepts it)"));
        }
    }
    // f64 `time`: serde_json without the `float_roundtrip` feature parses floats approximately, so the wall-clock
    // milliseconds of a real event may come back one ulp off.  Deterministic search for such a value (monitor only;
    // the model treats float tokens as opaque, hypothesis `parse . print = id`).
    sink.case("time");
    let mut bad: Option<(f64, String)> = None;
    for k in 0..20000u64 {
        let t = 1_790_000_000_000.0f64 + (k as f64) * 0.137_519;
        let data = qevent::EventData::from(qevent::build!(qevent::loglevel::Warning { message: "m", code: 1u64 }));
        let e = qevent::build!(qevent::Event { time: t, data: data });
        let s = serde_json::to_string(&e).unwrap();
        match serde_json::from_str::<qevent::Event>(&s) {
            Ok(e2) if e2 == e => {}
            _ => { bad = Some((t, s)); break; }
        }
    }
    match bad {
        Some((t, s)) => {
            sink.line("time-search 20000", "inexact");
            sink.monitor_fail("roundtrip-time-inexact", &format!("Event with time = {t:?} (a plausible wall-clock millisecond value) serialises to {s}, and from_str of that text gives an event with a different f64 time (serde_json built without float_roundtrip)"));
        }
        None => sink.line("time-search 20000", "exact"),
    }
    sink.finish(&o.stats, "all");
}

pub const RUNS: &[(&str, fn(&Opts))] = &[("C20ser", run), ("C20amb", run_amb)];
