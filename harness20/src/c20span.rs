//! C20span: probes of the REAL span / field-lookup / event-building code of `qevent::telemetry`
//! (crate built with the `telemetry` feature).
//!
//! Line protocol
//! ```text
//! case <id>
//! cfg <capture|filter>                         => ok
//! span <name>=<kind>,<name>=<kind>… | span -   => ok       nested span (`span!(@current, …)`): inherits the fields of
//!                                                          the current span, adds/overwrites these.  kind ∈ {s,n,b,as,an}:
//!                                                          s → "v", n → 7, b → true, as → ["QUIC","x"], an → [1,2]
//! load <name> <ty>     => ok | PANIC                       Span::current().load::<T>(name)
//! tryload <name> <ty>  => some | none                      Span::current().try_load::<T>(name)
//! emit <variant>       => PANIC | filtered | ok <top-level keys of to_string(event) in order of appearance, duplicates kept> rt=<0|1>
//!                                                          rt = from_str::<Event>(to_string(e)) succeeds and equals e (up to the f64 `time`, see `roundtrip`)
//! ```
//! `span` calls exactly what `span!(@current, name = value, …)` expands to (`macro_support::{current_span_exporter,
//! current_span_fields, to_value, new_span}`), because the macro wants the field names as identifiers.
use std::{
    collections::{BTreeMap, HashMap},
    sync::{Arc, Mutex},
};

use qevent::{
    Event, GroupID, PathID, ProtocolTypeList,
    telemetry::{Entered, ExportEvent, Span, macro_support as ms},
};

use crate::common::{catch, Opts, Rng, Sink};

pub struct Cap {
    pub events: Mutex<Vec<Event>>,
    pub pass: bool,
}

impl ExportEvent for Cap {
    fn emit(&self, event: Event) {
        self.events.lock().unwrap().push(event);
    }
    fn filter_event(&self, _scheme: &'static str) -> bool {
        self.pass
    }
}

pub const NAMES: [&str; 4] = ["group_id", "path", "protocol_types", "foo"];
pub const KNOWN: [&str; 3] = ["path", "protocol_types", "group_id"]; // in the order `event!` loads them
pub const KINDS: [&str; 5] = ["s", "n", "b", "as", "an"];
pub const TYS: [&str; 7] = ["String", "u64", "bool", "VecString", "PathID", "GroupID", "ProtocolTypeList"];
pub const VARIANTS: [&str; 7] = ["plain", "custom_foo", "custom_time", "custom_name", "custom_data", "custom_path", "custom_group_id"];

fn value_of(kind: &str) -> serde_json::Value {
    match kind {
        "s" => ms::to_value("v"),
        "n" => ms::to_value(7u32),
        "b" => ms::to_value(true),
        "as" => ms::to_value(vec!["QUIC", "x"]),
        _ => ms::to_value(vec![1u32, 2u32]),
    }
}

fn do_load(name: &'static str, ty: &str) -> Result<(), String> {
    match ty {
        "String" => catch(|| { Span::current().load::<String>(name); }),
        "u64" => catch(|| { Span::current().load::<u64>(name); }),
        "bool" => catch(|| { Span::current().load::<bool>(name); }),
        "VecString" => catch(|| { Span::current().load::<Vec<String>>(name); }),
        "PathID" => catch(|| { Span::current().load::<PathID>(name); }),
        "GroupID" => catch(|| { Span::current().load::<GroupID>(name); }),
        _ => catch(|| { Span::current().load::<ProtocolTypeList>(name); }),
    }
}

fn do_tryload(name: &'static str, ty: &str) -> bool {
    match ty {
        "String" => Span::current().try_load::<String>(name).is_some(),
        "u64" => Span::current().try_load::<u64>(name).is_some(),
        "bool" => Span::current().try_load::<bool>(name).is_some(),
        "VecString" => Span::current().try_load::<Vec<String>>(name).is_some(),
        "PathID" => Span::current().try_load::<PathID>(name).is_some(),
        "GroupID" => Span::current().try_load::<GroupID>(name).is_some(),
        _ => Span::current().try_load::<ProtocolTypeList>(name).is_some(),
    }
}

macro_rules! listening {
    ($($tt:tt)*) => {
        qevent::event!(qevent::quic::connectivity::ServerListening { ip_v4: "127.0.0.1".to_owned(), port_v4: 443u16 } $($tt)*)
    };
}

fn do_emit(variant: &str) -> Result<(), String> {
    match variant {
        "plain" => catch(|| { listening!(); }),
        "custom_foo" => catch(|| { listening!(, foo = 1u32); }),
        "custom_time" => catch(|| { listening!(, time = 5u32); }),
        "custom_name" => catch(|| { listening!(, name = "x"); }),
        "custom_data" => catch(|| { listening!(, data = 1u32); }),
        "custom_path" => catch(|| { listening!(, path = "p"); }),
        _ => catch(|| { listening!(, group_id = "g"); }),
    }
}

/// Keys of the top-level object of a compact JSON text, in order of appearance, duplicates kept
/// (serde_json::Value would dedupe / reorder them).
pub fn top_level_keys(js: &str) -> Vec<String> {
    let b = js.as_bytes();
    let mut keys = vec![];
    let mut depth = 0i64;
    let mut i = 0;
    while i < b.len() {
        match b[i] {
            b'{' | b'[' => depth += 1,
            b'}' | b']' => depth -= 1,
            b'"' => {
                let start = i + 1;
                i += 1;
                while i < b.len() && b[i] != b'"' {
                    if b[i] == b'\\' { i += 1; }
                    i += 1;
                }
                // b[i] is the closing quote
                if depth == 1 && i + 1 < b.len() && b[i + 1] == b':' {
                    keys.push(js[start..i.min(js.len())].to_string());
                }
            }
            _ => {}
        }
        i += 1;
    }
    keys
}

#[derive(PartialEq, Debug)]
pub enum Rt { Exact, TimeOnly, Fail(String) }

/// Compact text of the event and whether `from_str(to_string(e)) == e`.  `TimeOnly`: the only difference is the
/// f64 `time` (serde_json parses floats approximately unless built with `float_roundtrip`; the time is the
/// wall clock, so this outcome is not reproducible and is kept apart from the structural failures).
pub fn roundtrip(e: &Event) -> (String, Rt) {
    let js = serde_json::to_string(e).unwrap_or_else(|err| format!("<<to_string failed: {}>>", err));
    let rt = match serde_json::from_str::<Event>(&js) {
        Ok(back) if &back == e => Rt::Exact,
        Ok(back) => {
            // the fields are private: compare the derived Debug texts with the leading `time: <f64>, ` cut out
            // (NOT the JSON values: a custom field named like a known one serialises to the same JSON as the known field)
            let strip = |x: &Event| { let d = format!("{:?}", x); match (d.find("time: "), d.find(", ")) { (Some(a), Some(b)) if a < b => format!("{}{}", &d[..a], &d[b + 2..]), _ => d } };
            if strip(&back) == strip(e) { Rt::TimeOnly } else { Rt::Fail(format!("parsed back as {:?}", back)) }
        }
        Err(err) => Rt::Fail(format!("from_str error: {}", err)),
    };
    (js, rt)
}

fn one_case(i: u64, rng: &mut Rng, sink: &mut Sink) {
    // --- generate -------------------------------------------------------------------------------------
    // forced combination (so that every known-name × kind × ty is exercised every 105 cases)
    let c = i % 105;
    let f_name = KNOWN[(c % 3) as usize];
    let f_kind = KINDS[((c / 3) % 5) as usize];
    let f_ty = TYS[((c / 15) % 7) as usize];
    let filter_cfg = rng.chance(1, 6);

    let nspans = rng.range(1, 3);
    let mut spans: Vec<Vec<(&'static str, &'static str)>> = vec![];
    for k in 0..nspans {
        let mut fs: Vec<(&'static str, &'static str)> = vec![];
        let n = match rng.below(8) { 0 => 0, 1..=4 => 1, 5 | 6 => 2, _ => 3 };
        for _ in 0..n {
            let name = *rng.pick(&NAMES);
            if fs.iter().any(|(m, _)| *m == name) { continue; }
            // half of the time the kind the event! macro expects for the name, otherwise any kind
            let kind = if rng.chance(1, 2) {
                match name { "protocol_types" => "as", _ => "s" }
            } else {
                *rng.pick(&KINDS)
            };
            fs.push((name, kind));
        }
        if k + 1 == nspans && rng.chance(3, 4) {
            fs.retain(|(m, _)| *m != f_name);
            fs.push((f_name, f_kind));
        }
        spans.push(fs);
    }
    #[derive(Clone)]
    enum Op { Load(&'static str, &'static str), TryLoad(&'static str, &'static str), Emit(&'static str) }
    let nops = rng.range(2, 4);
    let mut ops: Vec<Op> = vec![];
    for _ in 0..nops {
        let name = if rng.chance(2, 3) { f_name } else { *rng.pick(&NAMES) };
        let ty = if rng.chance(1, 2) { f_ty } else { *rng.pick(&TYS) };
        match rng.below(10) {
            0..=2 => ops.push(Op::Load(name, ty)),
            3..=5 => ops.push(Op::TryLoad(name, ty)),
            _ => ops.push(Op::Emit(if rng.chance(1, 3) { "plain" } else { *rng.pick(&VARIANTS) })),
        }
    }
    // the forced probe and one emit of the variant scheduled for this case
    let pos = rng.below(ops.len() as u64 + 1) as usize;
    ops.insert(pos, if rng.chance(1, 2) { Op::Load(f_name, f_ty) } else { Op::TryLoad(f_name, f_ty) });
    if rng.chance(3, 4) {
        let pos = rng.below(ops.len() as u64 + 1) as usize;
        ops.insert(pos, Op::Emit(VARIANTS[((i / 3) % 7) as usize]));
    }

    // --- execute on the real code ---------------------------------------------------------------------
    let cap = Arc::new(Cap { events: Mutex::new(vec![]), pass: !filter_cfg });
    let exporter: Arc<dyn ExportEvent> = cap.clone();
    let mut guards: Vec<Entered> = vec![];
    let mut shadow: BTreeMap<&'static str, &'static str> = BTreeMap::new(); // bookkeeping for keys / distribution only
    guards.push(ms::new_span(exporter, HashMap::new()).enter());
    let cfg = if filter_cfg { "filter" } else { "capture" };
    sink.line(&format!("cfg {}", cfg), "ok");
    sink.branch(&format!("cfg:{}", cfg));

    for fs in &spans {
        let op = if fs.is_empty() { "span -".to_string() } else { format!("span {}", fs.iter().map(|(n, k)| format!("{}={}", n, k)).collect::<Vec<_>>().join(",")) };
        sink.pending(&op);
        // == span!(@current, name = value, …)
        let current_exporter = ms::current_span_exporter();
        let mut fields = ms::current_span_fields();
        for (n, k) in fs {
            fields.insert(*n, value_of(k));
            shadow.insert(*n, *k);
            sink.branch(&format!("span:{}={}", n, k));
        }
        guards.push(ms::new_span(current_exporter, fields).enter());
        sink.line(&op, "ok");
    }
    let present = |shadow: &BTreeMap<&'static str, &'static str>, name: &str| shadow.get(name).copied().unwrap_or("missing");
    let mut any_ok = false;
    for op in &ops {
        match op {
            Op::Load(name, ty) => {
                let l = format!("load {} {}", name, ty);
                sink.pending(&l);
                let r = if do_load(name, ty).is_ok() { "ok" } else { "PANIC" };
                sink.branch(&format!("load:{}:{}:{}", present(&shadow, name), ty, r));
                sink.line(&l, r);
            }
            Op::TryLoad(name, ty) => {
                let l = format!("tryload {} {}", name, ty);
                sink.pending(&l);
                let r = match catch(|| do_tryload(name, ty)) {
                    Ok(true) => "some",
                    Ok(false) => "none",
                    Err(msg) => {
                        sink.monitor_fail(&format!("panic:tryload:{}:{}", present(&shadow, name), ty), &format!("Span::try_load panicked: {}", msg));
                        "PANIC"
                    }
                };
                sink.branch(&format!("tryload:{}:{}:{}", present(&shadow, name), ty, r));
                sink.line(&l, r);
            }
            Op::Emit(variant) => {
                let l = format!("emit {}", variant);
                sink.pending(&l);
                cap.events.lock().unwrap().clear();
                let r = do_emit(variant);
                let evs: Vec<Event> = std::mem::take(&mut *cap.events.lock().unwrap_or_else(|e| e.into_inner()));
                match r {
                    Err(msg) => {
                        // signature: the first known-name field (in the order event! loads them) whose value is not of the
                        // JSON kind event! deserialises it as; `-` when there is none
                        let culprit = KNOWN
                            .iter()
                            .filter_map(|n| shadow.get(n).map(|k| (*n, *k)))
                            .find(|(n, k)| *k != if *n == "protocol_types" { "as" } else { "s" })
                            .map(|(n, k)| format!("{}={}", n, k))
                            .unwrap_or_else(|| "-".into());
                        let all = shadow.iter().map(|(n, k)| format!("{}={}", n, k)).collect::<Vec<_>>().join(",");
                        sink.line(&l, "PANIC");
                        sink.branch(&format!("emit:{}:PANIC", variant));
                        sink.branch(&format!("emit-panic:{}", culprit));
                        // A span field of the WRONG JSON type (e.g. group_id = 7) is API misuse that no span! site of the repo
                        // commits (Props/C20 `emit_never_panics_under_repo_spans`); the panic is then only compared with the
                        // model.  With every known field absent or of the type the repo's sites give it, a panic is a violation.
                        if culprit == "-" {
                            sink.monitor_fail(
                                &format!("panic:emit:{}:welltyped-context", variant),
                                &format!("event!(ServerListening{{..}}) panicked although every span field it reads is absent or well typed; span fields: [{}]; message: {}", all, msg),
                            );
                        } else {
                            sink.branch("emit-panic:ill-typed-span-field(api-misuse,not-a-repo-site)");
                        }
                    }
                    Ok(()) if evs.is_empty() => {
                        sink.line(&l, "filtered");
                        sink.branch(&format!("emit:{}:filtered", variant));
                    }
                    Ok(()) => {
                        if evs.len() != 1 {
                            sink.monitor_fail(&format!("emit-count:{}", variant), &format!("one event! produced {} events", evs.len()));
                        }
                        let (js, rt) = roundtrip(&evs[0]);
                        let keys = top_level_keys(&js);
                        // rt=1 also when only the wall-clock f64 `time` is parsed back one ulp off (not reproducible; see `roundtrip`)
                        let rt1 = !matches!(rt, Rt::Fail(_));
                        if rt == Rt::TimeOnly {
                            sink.branch("emit:time-parsed-back-inexactly");
                            sink.note("time_inexact_example", serde_json::json!(js));
                        }
                        sink.line(&l, &format!("ok {} rt={}", keys.join(","), if rt1 { 1 } else { 0 }));
                        sink.branch(&format!("emit:{}:ok:rt={}", variant, if rt1 { 1 } else { 0 }));
                        let mut sorted = keys.clone();
                        sorted.sort();
                        if sorted.windows(2).any(|w| w[0] == w[1]) { sink.branch(&format!("emit:{}:duplicate-key", variant)); }
                        any_ok = true;
                        // custom fields named like a field of the envelope (time/name/data/path/group_id) alias or duplicate it;
                        // no event! site of the repo does that (Props/C20 `event_sites_custom_fields_not_reserved`): model-compared only
                        if let (Rt::Fail(why), true) = (&rt, *variant == "plain" || *variant == "custom_foo") {
                            sink.monitor_fail(&format!("emit-not-roundtrip:{}", variant), &format!("from_str(to_string(event)) != event: {}; text: {}", why, js));
                        }
                        if !["time", "name", "data"].iter().all(|m| keys.iter().any(|k| k == m)) {
                            sink.monitor_fail(&format!("emit-missing-mandatory:{}", variant), &format!("top-level keys {:?} lack time/name/data; text: {}", keys, js));
                        }
                    }
                }
            }
        }
    }
    if any_ok { sink.nontrivial(); }
    // leave the spans innermost first (each guard restores the span that was current when it was entered)
    while let Some(g) = guards.pop() { drop(g); }
}

pub fn run(o: &Opts) {
    let mut sink = Sink::new_with_stats(&o.out, &o.stats);
    for i in 0..o.cases {
        if let Some(k) = o.only_case { if k != i { continue; } }
        let mut rng = Rng::new(o.seed, i);
        sink.case(&format!("{}", i));
        one_case(i, &mut rng, &mut sink);
    }
    sink.finish(&o.stats, "per case: a capturing or an all-filtering exporter, 1-3 nested spans over the field names group_id/path/protocol_types/foo with JSON kinds string/number/bool/string array/number array (every known-name x kind x requested-type combination is forced once per 105 cases), then 3-6 of Span::load / Span::try_load (7 requested types) / event!(ServerListening{..}) with no or one custom field named foo/time/name/data/path/group_id; non-trivial = at least one emit produced an event; distinct by hash of the case transcript");
}

pub const RUNS: &[(&str, fn(&Opts))] = &[("C20span", run)];
