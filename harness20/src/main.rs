//! gmq-harness (C20 flavour): the same command line as `harness/`, but linked against `qevent` WITH the
//! `telemetry` + `raw_data` features, so events are really built, filtered and exported.  The workloads of
//! other properties are re-used verbatim (`#[path]`), they are the code under observation of the purity leg.
#[path = "../../harness/src/common.rs"]
mod common;

/// Workloads re-used from `harness/src` (siblings, because they refer to each other through `super::`).
mod wl;
/// `harness/src/c11s.rs` names itself through `crate::registry::c11s`, the generated module list of `harness/`.
#[allow(unused_imports)]
mod registry {
    pub use crate::wl::{c01, c08, c11, c11s};
}

mod c20pure;
mod c20ser;
mod c20span;

use common::Opts;

fn all() -> Vec<(&'static str, fn(&Opts))> {
    let mut v = vec![];
    v.extend_from_slice(c20pure::RUNS);
    v.extend_from_slice(c20span::RUNS);
    v.extend_from_slice(c20ser::RUNS);
    v
}

fn main() {
    let args: Vec<String> = std::env::args().collect();
    if args.len() < 2 {
        eprintln!("usage: gmq-harness <run> --seed S --cases N --tier quick|thorough --out F --stats F [--only-case I]");
        std::process::exit(2);
    }
    let mut o = Opts {
        prop: args[1].clone(),
        seed: 1,
        cases: 1000,
        tier: "quick".into(),
        out: "/dev/null".into(),
        stats: "/dev/null".into(),
        only_case: None,
        extra: vec![],
    };
    let mut i = 2;
    while i < args.len() {
        let v = args.get(i + 1).cloned().unwrap_or_default();
        match args[i].as_str() {
            "--seed" => o.seed = v.parse().unwrap(),
            "--cases" => o.cases = v.parse().unwrap(),
            "--tier" => o.tier = v,
            "--out" => o.out = v,
            "--stats" => o.stats = v,
            "--only-case" => o.only_case = Some(v.parse().unwrap()),
            other => {
                o.extra.push(other.to_string());
                i += 1;
                continue;
            }
        }
        i += 2;
    }
    common::silence_panics();
    match all().into_iter().find(|(n, _)| *n == o.prop) {
        Some((_, f)) => f(&o),
        None => {
            eprintln!("unknown run {}", o.prop);
            std::process::exit(2);
        }
    }
}
