"""T4: literal constants -> Gen/Consts.lean"""
NAME = "Consts"

def consts(g):
    # packet number encoding thresholds (qbase/src/packet/number.rs PacketNumber::encode)
    num = "qbase/src/packet/number.rs"
    g.const("pnMinRange", num, r"let range = max\(\(pn - largest_acked\) \* 2, ([^)]*\)[^)]*)\);")
    g.const("pnRangeFactor", num, r"let range = max\(\(pn - largest_acked\) \* (\d+),")
    g.const("pnThresh8", num, r"if range < ([^{]+)\{\s*Self::U8")
    g.const("pnThresh16", num, r"else if range < ([^{]+)\{\s*Self::U16")
    g.const("pnThresh24", num, r"else if range < ([^{]+)\{\s*Self::U24")
    g.const("pnThresh32", num, r"else if range < ([^{]+)\{\s*Self::U32")
    g.const("varintMax", "qbase/src/varint.rs", r"pub const VARINT_MAX: u64 = ([^;]+);")


def generate(g):
    from xlate import lean_header
    consts(g)
    lines = lean_header()
    for name, v, srcinfo in g.items:
        lines.append(f"/-- {srcinfo} -/")
        lines.append(f"def {name} : Nat := {v}")
    lines += ["", "end GmQuic.Gen", ""]
    return "\n".join(lines)
