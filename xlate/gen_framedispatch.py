"""T5 (fourth part): `GetFrameType::frame_type` of every frame struct and the `complete_frame` DISPATCH
(frame type -> parser -> `Frame` variant) of qbase/src/frame/io.rs   ->  Gen/FrameDispatch.lean

* `ftype_<f>`: the body of `impl GetFrameType for <Struct>` (a `FrameType` constructor applied to flag
  expressions: `if c { A } else { B }`, `match self { V(_) => A, .. }`, `self.address.family()`,
  `self.encode_len as _`, `let`), proved equal to the model's `Frame.type`.
* `complete`: one arm per `FrameType` pattern of `complete_frame`; `map(P, Frame::V).parse(input)`,
  `map(P, |f| Frame::StreamCtl(f.into())).parse(input)`, `Ok((input, Frame::V(Unit)))`; P is looked up
  among the parsers translated by gen_framecodec.py (`dec_<f>`), the `Frame` variant must carry P's
  struct (checked against `pub enum Frame` / `StreamCtlFrame`).  The three data-frame arms (header
  parser + split of the data out of `raw`) and `connection_close_frame_at_layer`, `Frame::frame_type`,
  `be_frame` are recognised as whole texts (GUARDS): an edit makes the translator refuse.
  `Props/C05/GeneratedDispatch.lean` proves `complete t = decBody t` for every `t`.
"""
import os, re, sys
sys.path.insert(0, os.path.dirname(os.path.abspath(__file__)))
import gen_framecodec as FC
from rustfrag import Outside, parse_block, find_body

NAME = "FrameDispatch"
V = FC.V
FLAGS = {"Ecn::Exist": "true", "Ecn::None": "false", "Dir::Uni": "true", "Dir::Bi": "false", "Layer::App": "true", "Layer::Quic": "false",
         "Offset::NonZero": "true", "Offset::Zero": "false", "Family::V6": "true", "Family::V4": "false"}
UNIT = {"Padding": ".padding", "Ping": ".ping", "ResetStream": ".resetStream", "StopSending": ".stopSending", "Crypto": ".crypto",
        "NewToken": ".newToken", "MaxData": ".maxData", "MaxStreamData": ".maxStreamData", "DataBlocked": ".dataBlocked",
        "StreamDataBlocked": ".streamDataBlocked", "NewConnectionId": ".newConnectionId", "RetireConnectionId": ".retireConnectionId",
        "PathChallenge": ".pathChallenge", "PathResponse": ".pathResponse", "HandshakeDone": ".handshakeDone",
        "RemoveAddress": ".removeAddress", "PunchHello": ".punchHello", "PunchDone": ".punchDone"}
FLAGGED = {"Ack": (".ack", 1), "MaxStreams": (".maxStreams", 1), "StreamsBlocked": (".streamsBlocked", 1), "ConnectionClose": (".connectionClose", 1),
           "Datagram": (".datagram", 1), "AddAddress": (".addAddress", 1), "PunchMeNow": (".punchMeNow", 1), "Stream": (".stream", 3)}

W = r"\s*"
GUARDS = [
    ("qbase/src/net.rs", r"impl AddrFamily for std::net::IpAddr \{\s*fn family\(&self\) -> Family \{\s*match self \{\s*std::net::IpAddr::V4\(_\) => Family::V4,\s*std::net::IpAddr::V6\(_\) => Family::V6,\s*\}\s*\}\s*\}\s*impl AddrFamily for std::net::SocketAddr \{\s*fn family\(&self\) -> Family \{\s*self\.ip\(\)\.family\(\)\s*\}\s*\}"),
    ("qbase/src/frame/connection_close.rs", r"move \|input: &\[u8\]\| match layer \{\s*Layer::App => \{\s*be_app_close_frame\(input\)\.map\(\|\(remain, app\)\| \(remain, ConnectionCloseFrame::App\(app\)\)\)\s*\}\s*Layer::Quic => be_quic_close_frame\(input\)\s*\.map\(\|\(remain, quic\)\| \(remain, ConnectionCloseFrame::Quic\(quic\)\)\),\s*\}"),
    ("qbase/src/frame/io.rs", r"FrameType::Crypto => \{\s*let \(input, frame\) = be_crypto_frame\(input\)\?;\s*let start = raw\.len\(\) - input\.len\(\);\s*let len = frame\.len\(\) as usize;\s*if input\.len\(\) < len \{\s*Err\(nom::Err::Incomplete\(nom::Needed::new\(len - input\.len\(\)\)\)\)\s*\} else \{\s*let data = raw\.slice\(start\.\.start \+ len\);\s*Ok\(\(&input\[len\.\.\], Frame::Crypto\(frame, data\)\)\)\s*\}\s*\}"),
    ("qbase/src/frame/io.rs", r"FrameType::Stream\(offset, len, fin\) => \{\s*let \(input, frame\) = stream_frame_with_flag\(offset, len, fin\)\(input\)\?;\s*let start = raw\.len\(\) - input\.len\(\);\s*let len = frame\.len\(\);\s*if input\.len\(\) < len \{\s*Err\(nom::Err::Incomplete\(nom::Needed::new\(len - input\.len\(\)\)\)\)\s*\} else \{\s*let data = raw\.slice\(start\.\.start \+ len\);\s*Ok\(\(&input\[len\.\.\], Frame::Stream\(frame, data\)\)\)\s*\}\s*\}"),
    ("qbase/src/frame/io.rs", r"FrameType::Datagram\(with_len\) => \{\s*let \(input, frame\) = datagram_frame_with_flag\(with_len\)\(input\)\?;\s*let start = raw\.len\(\) - input\.len\(\);\s*match frame\.encode_len\(\) \{\s*true if frame\.len\(\)\.into_u64\(\) > input\.len\(\) as u64 => Err\(nom::Err::Incomplete\(\s*nom::Needed::new\(\(frame\.len\(\)\.into_u64\(\) - input\.len\(\) as u64\) as usize\),\s*\)\),\s*true => \{\s*let data = raw\.slice\(start\.\.start \+ frame\.len\(\)\.into_u64\(\) as usize\);\s*Ok\(\(\s*&input\[frame\.len\(\)\.into_u64\(\) as usize\.\.\],\s*Frame::Datagram\(frame, data\),\s*\)\)\s*\}\s*false => \{\s*let data = raw\.slice\(start\.\.\);\s*Ok\(\(&\[\], Frame::Datagram\(frame, data\)\)\)\s*\}\s*\}\s*\}"),
    ("qbase/src/frame/io.rs", r"pub fn be_frame\(raw: &Bytes, packet_type: Type\) -> Result<\(usize, Frame, FrameType\), Error> \{\s*let input = raw\.as_ref\(\);\s*let \(remain, frame_type\) = be_frame_type\(input\)\?;\s*if !frame_type\.belongs_to\(packet_type\) \{\s*return Err\(Error::WrongType\(frame_type, packet_type\)\);\s*\}\s*let \(remain, frame\) = complete_frame\(frame_type, raw\.clone\(\)\)\(remain\)\.map_err\(\|e\| match e \{\s*ne @ nom::Err::Incomplete\(_\) => \{\s*nom::Err::Error\(Error::IncompleteFrame\(frame_type, ne\.to_string\(\)\)\)\s*\}\s*nom::Err::Error\(ne\) => \{\s*nom::Err::Error\(Error::ParseError\(\s*frame_type,\s*ne\.code\.description\(\)\.to_owned\(\),\s*\)\)\s*\}\s*_ => unreachable!\(\"parsing frame never fails\"\),\s*\}\)\?;\s*Ok\(\(input\.len\(\) - remain\.len\(\), frame, frame_type\)\)\s*\}"),
]
SPLITS = {
    "crypto": "fun bs => (dec_crypto bs).bind fun h r =>\n      if r.length < h.2 then .err .incomplete else .ok (.crypto h.1 h.2 (r.take h.2)) (r.drop h.2)",
    "stream": "fun bs => (dec_stream {a} bs).bind fun h r =>\n      if r.length < h.2.2.1 then .err .incomplete\n      else .ok (.stream h.1 h.2.1 h.2.2.1 h.2.2.2.1 h.2.2.2.2 (r.take h.2.2.1)) (r.drop h.2.2.1)",
    "datagram": "fun bs => (dec_datagram {a} bs).bind fun h r =>\n      if h.1 then (if h.2 > r.length then .err .incomplete else .ok (.datagram true h.2 (r.take h.2)) (r.drop h.2))\n      else .ok (.datagram false h.2 r) []",
}


def flag(e, env, ctx):
    """flag-valued expression -> Lean Bool term"""
    if e[0] == "path" and "::".join(e[1][-2:]) in FLAGS:
        return FLAGS["::".join(e[1][-2:])]
    if e[0] == "path" and len(e[1]) == 1 and e[1][0] in env and env[e[1][0]].kind == "flag":
        return env[e[1][0]].term
    if e[0] == "if" and e[3] is not None and not e[2][1] and not e[3][1]:
        c = FC.ev(e[1], env, ctx)
        if c.kind not in ("bool", "lenbit"):
            raise Outside("flag condition")
        return f"(if {c.term} then {flag(e[2][2], env, ctx)} else {flag(e[3][2], env, ctx)})"
    if e[0] == "match":
        scrut = FC.ev(e[1], env, ctx)
        return FC.ev_match(scrut, e[2], env, ctx, lambda body, env2: V("flag", flag(body, env2, ctx)), "flag").term
    if e[0] == "mcall" and e[2] == "family" and not e[3]:
        r = FC.ev(e[1], env, ctx)
        if r.kind == "addr":
            return f"{r.term}.v6"
    if e[0] == "cast" and e[2] == "_":
        r = FC.ev(e[1], env, ctx)
        if r.kind == "lenbit":
            return r.term
    if e[0] == "field":
        r = FC.ev(e, env, ctx)
        if r.kind == "lenbit":
            return r.term
    raise Outside(f"flag expression `{e[0]}` outside the fragment")


def ftype(e, env, ctx):
    if e[0] == "block":
        env = dict(env)
        for s in e[1]:
            if s[0] == "let" and s[1][0] == "pbind":
                env[s[1][1]] = V("flag", flag(s[2], env, ctx))
            else:
                raise Outside("statement in frame_type")
        return ftype(e[2], env, ctx)
    if e[0] == "match":        # ConnectionClose: one function per variant
        scrut = FC.ev(e[1], env, ctx)
        return FC.ev_match(scrut, e[2], env, ctx, lambda body, env2: V("ftype", ftype(body, env2, ctx)), "ftype").term
    if e[0] == "path" and e[1][-2:-1] == ["FrameType"] and e[1][-1] in UNIT:
        return UNIT[e[1][-1]]
    if e[0] == "call" and e[1][0] == "path" and e[1][1][-2:-1] == ["FrameType"] and e[1][1][-1] in FLAGGED:
        c, n = FLAGGED[e[1][1][-1]]
        if len(e[2]) != n:
            raise Outside("frame type arity")
        return c + " " + " ".join(FC.par(flag(a, env, ctx)) for a in e[2])
    raise Outside("frame_type body outside the fragment")


def generate(g):
    from xlate import lean_header
    for rel, rx in GUARDS:
        if not re.search(rx, FC.src_of(g, rel), re.S):
            g.untranslated.append(f"FrameDispatch: text of a recognised idiom changed in {rel}: /{rx[:70]}…/")
    L = lean_header("GmQuic.Gen.FrameDispatch")
    L[1:1] = ["import GmQuic.Gen.FrameCodec"]
    L += ["set_option linter.unusedVariables false", "open GmQuic.Wire GmQuic.Codec GmQuic.Gen GmQuic.Gen.FrameCodec", ""]
    items = []
    byparser, bystruct = {}, {}
    for sp in FC.SPECS:
        rel = FC.FR + sp["file"]
        src = FC.src_of(g, rel)
        implty = sp.get("enum", sp["struct"])
        if sp["parser"]:
            byparser[sp["parser"]] = sp
        bystruct.setdefault(implty, []).append(sp)
        try:
            body = FC.fn_body(src, r"impl (?:super::)?GetFrameType for " + implty + r" \{", r"fn frame_type\(&self\) -> (?:super::)?FrameType \{", f"{implty}::frame_type")
            ctx = FC.Ctx(g, sp, src, rel)
            t = ftype(parse_block(body), {"self": FC.self_value(sp)}, ctx)
            sig = " ".join(f"({v} : {ty})" for v, ty in FC.lean_args(sp))
            L += [f"/-- {rel} `{implty}::frame_type` -/", f"def ftype_{sp['name']} {sig} : FrameType :=".replace("  ", " "), f"  {t}", ""]
            items.append(f"ftype_{sp['name']}")
        except Outside as ex:
            g.untranslated.append(f"ftype_{sp['name']}: {ex}")
    # ---- enum Frame / StreamCtlFrame declarations, Frame::frame_type dispatch
    fsrc = FC.src_of(g, "qbase/src/frame.rs")
    try:
        variants = {}
        body, _ = find_body(fsrc, r"pub enum Frame<D = Bytes> \{", "enum Frame")
        for m in re.finditer(r"(\w+)\((\w+)(, D)?\),", re.sub(r"#\[[^\]]*\]", "", body)):
            variants[m.group(1)] = (m.group(2), bool(m.group(3)))
        sc, _ = find_body(fsrc, r"pub enum StreamCtlFrame \{", "enum StreamCtlFrame")
        streamctl = {m.group(2) for m in re.finditer(r"(\w+)\((\w+)\),", sc)}
        disp = FC.fn_body(fsrc, r"impl<D> GetFrameType for Frame<D> \{", r"fn frame_type\(&self\) -> FrameType \{", "Frame::frame_type")
        b = parse_block(disp)
        if b[1] or b[2][0] != "match" or b[2][1] != ("path", ["self"]):
            raise Outside("Frame::frame_type is not `match self`")
        seen = set()
        for pat, e in b[2][2]:
            ok = (pat[0] == "pctor" and pat[1][0] == "Frame" and pat[1][1] in variants and pat[2] and pat[2][0][0] == "pbind"
                  and e == ("mcall", ("path", [pat[2][0][1]]), "frame_type", []))
            if not ok:
                raise Outside(f"Frame::frame_type arm `{pat}` is not `Frame::V(f, ..) => f.frame_type()`")
            seen.add(pat[1][1])
        if seen != set(variants):
            raise Outside("Frame::frame_type does not have one arm per variant")
    except Outside as ex:
        g.untranslated.append(f"Frame enum / frame_type dispatch: {ex}")
        return None
    # ---- complete_frame
    try:
        io = FC.src_of(g, "qbase/src/frame/io.rs")
        body, _ = find_body(io, r"fn complete_frame\(\s*frame_type: FrameType,\s*raw: Bytes,\s*\) -> impl Fn\(&\[u8\]\) -> nom::IResult<&\[u8\], Frame> \{", "complete_frame")
        for (rel, rx), rep in zip(GUARDS[2:5], ("FrameType::Crypto => pinned(),", "FrameType::Stream(offset, len, fin) => pinned(),", "FrameType::Datagram(with_len) => pinned(),")):
            body, n = re.subn(rx, rep, body, flags=re.S)
            if n != 1:
                raise Outside("data-frame arm text not found exactly once in complete_frame")
        b = parse_block(body)
        clo = b[2]
        if clo is None or clo[0] != "closure" or clo[1] != [("pbind", "input")] or clo[2][0] != "match" or clo[2][1] != ("path", ["frame_type"]):
            raise Outside("complete_frame is not `move |input| match frame_type { .. }`")
        arms = []
        for pat, e in clo[2][2]:
            if pat[0] != "pctor" or pat[1][0] != "FrameType":
                raise Outside(f"complete_frame arm pattern {pat}")
            tname = pat[1][1]
            binders = [p[1] for p in (pat[2] or [])]
            if any(p[0] != "pbind" for p in (pat[2] or [])):
                raise Outside("complete_frame arm binder")
            if tname in UNIT and not binders:
                lhs = UNIT[tname]
            elif tname in FLAGGED and len(binders) == FLAGGED[tname][1]:
                lhs = FLAGGED[tname][0] + " " + " ".join(binders)
            else:
                raise Outside(f"complete_frame arm for unknown frame type {tname}")
            if tname in ("Crypto", "Stream", "Datagram"):       # text-pinned above
                arms.append((lhs, SPLITS[tname.lower()].replace("{a}", " ".join(binders))))
                continue
            if e[0] == "block" and not e[1]:
                e = e[2]
            # Ok((input, Frame::V(Unit)))
            if e[0] == "call" and e[1] == ("path", ["Ok"]) and e[2][0][0] == "tuple" and e[2][0][1][0] == ("path", ["input"]):
                fv = e[2][0][1][1]
                if fv[0] == "call" and fv[1][0] == "path" and fv[1][1][0] == "Frame" and len(fv[2]) == 1 and fv[2][0][0] == "path":
                    st = fv[2][0][1][0]
                    if variants.get(fv[1][1][1], (None,))[0] != st or st not in bystruct or bystruct[st][0]["fields"]:
                        raise Outside(f"unit arm {tname}")
                    arms.append((lhs, f"fun bs => .ok {bystruct[st][0]['ctor']({})} bs"))
                    continue
                raise Outside(f"arm {tname}: Ok(..) shape")
            # map(P, Frame::V).parse(input)
            if not (e[0] == "mcall" and e[2] == "parse" and e[3] == [("path", ["input"])] and e[1][0] == "call" and e[1][1] == ("path", ["map"]) and len(e[1][2]) == 2):
                raise Outside(f"arm {tname} is not `map(P, Frame::V).parse(input)`")
            p, wrap = e[1][2]
            if wrap[0] == "closure" and wrap[2][0] == "block" and not wrap[2][1] and wrap[2][2] is not None:
                wrap = ("closure", wrap[1], wrap[2][2])
            if p[0] == "path":
                pname, pargs = p[1][-1], []
            elif p[0] == "call" and p[1][0] == "path":
                pname, pargs = p[1][1][-1], p[2]
            else:
                raise Outside(f"arm {tname}: parser expression")
            if pargs != [("path", [x]) for x in binders]:
                raise Outside(f"arm {tname}: parser arguments {pargs} are not the pattern binders {binders}")
            if pname == "connection_close_frame_at_layer":
                st, term = "ConnectionCloseFrame", f"(match {binders[0]} with | true => dec_close_app | false => dec_close_quic)"
            elif pname in byparser:
                sp = byparser[pname]
                st = sp.get("enum", sp["struct"])
                term = f"dec_{sp['name']}" + "".join(" " + x for x in binders)
            else:
                raise Outside(f"arm {tname}: parser `{pname}` is not among the translated parsers")
            if wrap[0] == "path" and wrap[1][0] == "Frame":
                if variants.get(wrap[1][1], (None,))[0] != st:
                    raise Outside(f"arm {tname}: `Frame::{wrap[1][1]}` does not carry a {st}")
            elif wrap == ("closure", [("pbind", "f")], ("call", ("path", ["Frame", "StreamCtl"]), [("mcall", ("path", ["f"]), "into", [])])):
                if st not in streamctl:
                    raise Outside(f"arm {tname}: {st} is not a StreamCtlFrame variant")
            else:
                raise Outside(f"arm {tname}: wrapper outside the fragment")
            arms.append((lhs, term))
        L += ["/-- qbase/src/frame/io.rs `complete_frame(frame_type, raw)`: which parser handles which frame type -/", "def complete : FrameType → P Frame"]
        L += [f"  | {lhs} => {rhs}" for lhs, rhs in arms]
        L += [""]
        items.append("complete")
    except Outside as ex:
        g.untranslated.append(f"complete_frame: {ex}")
    L += ["end GmQuic.Gen.FrameDispatch", ""]
    g.extra_items = items
    return "\n".join(L)


if __name__ == "__main__":
    from xlate import Gen
    g = Gen(sys.argv[1] if len(sys.argv) > 1 else "/repo")
    print(generate(g))
    print("UNTRANSLATED:", *g.untranslated, sep="\n  ", file=sys.stderr)
