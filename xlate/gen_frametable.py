"""T1: qbase/src/frame.rs frame-type <-> number tables, `belongs_to`, `specs`;
qbase/src/error.rs ErrorKind <-> code tables  ->  Gen/FrameTable.lean

Recognised shapes only (one arm per line, literal numbers, the fixed flag idioms for STREAM /
DATAGRAM / family-indexed extension frames).  Anything else is reported as untranslated: the check
then fails instead of guessing.  The Lean side (`Model/FrameType.lean`) fixes the constructor
names; the numbers, ranges, masks and table rows all come from the Rust text.
"""
import re
NAME = "FrameTable"

# Rust variant expression -> Lean constructor term
VARIANTS = {
    "Padding": ".padding", "Ping": ".ping",
    "Ack(Ecn::None)": ".ack false", "Ack(Ecn::Exist)": ".ack true",
    "ResetStream": ".resetStream", "StopSending": ".stopSending", "Crypto": ".crypto",
    "NewToken": ".newToken", "MaxData": ".maxData", "MaxStreamData": ".maxStreamData",
    "MaxStreams(Dir::Bi)": ".maxStreams false", "MaxStreams(Dir::Uni)": ".maxStreams true",
    "DataBlocked": ".dataBlocked", "StreamDataBlocked": ".streamDataBlocked",
    "StreamsBlocked(Dir::Bi)": ".streamsBlocked false", "StreamsBlocked(Dir::Uni)": ".streamsBlocked true",
    "NewConnectionId": ".newConnectionId", "RetireConnectionId": ".retireConnectionId",
    "PathChallenge": ".pathChallenge", "PathResponse": ".pathResponse",
    "ConnectionClose(Layer::Quic)": ".connectionClose false", "ConnectionClose(Layer::App)": ".connectionClose true",
    "HandshakeDone": ".handshakeDone",
    "AddAddress(Family::V4)": ".addAddress false", "AddAddress(Family::V6)": ".addAddress true",
    "PunchMeNow(Family::V4)": ".punchMeNow false", "PunchMeNow(Family::V6)": ".punchMeNow true",
    "RemoveAddress": ".removeAddress", "PunchHello": ".punchHello", "PunchDone": ".punchDone",
}
# patterns of `belongs_to` / `specs` arms (payload ignored)
PATS = {
    "Padding": ".padding", "Ping": ".ping", "Ack(_)": ".ack _", "ResetStream": ".resetStream",
    "StopSending": ".stopSending", "Crypto": ".crypto", "NewToken": ".newToken", "Stream(..)": ".stream _ _ _",
    "MaxData": ".maxData", "MaxStreamData": ".maxStreamData", "MaxStreams(_)": ".maxStreams _",
    "DataBlocked": ".dataBlocked", "StreamDataBlocked": ".streamDataBlocked", "StreamsBlocked(_)": ".streamsBlocked _",
    "NewConnectionId": ".newConnectionId", "RetireConnectionId": ".retireConnectionId",
    "PathChallenge": ".pathChallenge", "PathResponse": ".pathResponse", "ConnectionClose(_)": ".connectionClose _",
    "HandshakeDone": ".handshakeDone", "Datagram(_)": ".datagram _", "AddAddress(_)": ".addAddress _",
    "RemoveAddress": ".removeAddress", "PunchMeNow(_)": ".punchMeNow _", "PunchHello": ".punchHello", "PunchDone": ".punchDone",
}


def strip_comments(s):
    return re.sub(r"//[^\n]*", "", s)


def body_of(src, header_re, what):
    m = re.search(header_re, src)
    if not m:
        raise ValueError(f"{what}: header not found")
    assert src[m.end() - 1] == "{"
    i = m.end() - 1
    depth, j = 0, i
    while True:
        if src[j] == "{":
            depth += 1
        elif src[j] == "}":
            depth -= 1
            if depth == 0:
                return src[i + 1:j]
        j += 1


def lit(s):
    from xlate import rust_int
    return rust_int(re.sub(r"(u8|u16|u32|u64)$", "", s.strip()))


def generate(g):
    from xlate import lean_header, read
    frame = strip_comments(read(g.repo, "qbase/src/frame.rs"))
    stream = strip_comments(read(g.repo, "qbase/src/frame/stream.rs"))
    net = strip_comments(read(g.repo, "qbase/src/net.rs"))
    err = strip_comments(read(g.repo, "qbase/src/error.rs"))

    def one(src, pat, what):
        m = re.search(pat, src, re.S)
        if not m:
            raise ValueError(f"{what}: shape not recognised")
        return m

    # flag masks / bits
    off_mask = lit(one(stream, r"impl From<u64> for Offset \{.*?match value & (\w+) \{\s*0 => Offset::Zero,\s*_ => Offset::NonZero,", "Offset::from(u64)").group(1))
    len_mask = lit(one(stream, r"impl From<u64> for Len \{.*?match value & (\w+) \{\s*0 => Len::Omit,\s*_ => Len::Explicit,", "Len::from(u64)").group(1))
    fin_mask = lit(one(stream, r"impl From<u64> for Fin \{.*?match value & (\w+) \{\s*0 => Fin::No,\s*_ => Fin::Yes,", "Fin::from(u64)").group(1))
    m = one(stream, r"impl From<Offset> for u8 \{.*?Offset::Zero => (\w+),\s*Offset::NonZero => (\w+),", "u8::from(Offset)")
    off_bits = (lit(m.group(1)), lit(m.group(2)))
    m = one(stream, r"impl From<Len> for u8 \{.*?Len::Explicit => (\w+),\s*Len::Omit => (\w+),", "u8::from(Len)")
    len_bits = (lit(m.group(2)), lit(m.group(1)))
    m = one(stream, r"impl From<Fin> for u8 \{.*?Fin::Yes => (\w+),\s*Fin::No => (\w+),", "u8::from(Fin)")
    fin_bits = (lit(m.group(2)), lit(m.group(1)))
    m = one(net, r"pub enum Family \{\s*V4 = (\w+),\s*V6 = (\w+),\s*\}", "enum Family")
    fam = (lit(m.group(1)), lit(m.group(2)))

    # ---- TryFrom<VarInt> for FrameType
    dec_body = body_of(frame, r"impl TryFrom<VarInt> for FrameType \{", "TryFrom<VarInt>")
    dec_body = one(dec_body, r"Ok\(match frame_type\.into_u64\(\) \{(.*?)\n\s*\}\)", "TryFrom match").group(1)
    dec_arms = []
    seen_default = False
    for line in [l.strip() for l in dec_body.split("\n") if l.strip()]:
        m = re.fullmatch(r"(0x[0-9a-fA-F_]+|\d+) => FrameType::(.+?),", line)
        if m and m.group(2) in VARIANTS:
            dec_arms.append((f"n = {lit(m.group(1))}", f"some ({VARIANTS[m.group(2)]})"))
            continue
        m = re.fullmatch(r"ty @ (\w+)\.\.=(\w+) => FrameType::Stream\(Offset::from\(ty\), Len::from\(ty\), Fin::from\(ty\)\),", line)
        if m:
            dec_arms.append((f"{lit(m.group(1))} ≤ n ∧ n ≤ {lit(m.group(2))}",
                             f"some (.stream (n &&& {off_mask} != 0) (n &&& {len_mask} != 0) (n &&& {fin_mask} != 0))"))
            continue
        m = re.fullmatch(r"ty @ \((\w+) \| (\w+)\) => FrameType::Datagram\(ty as u8 & (\w+)\),", line)
        if m:
            dec_arms.append((f"n = {lit(m.group(1))} ∨ n = {lit(m.group(2))}", f"some (.datagram (n % 256 &&& {lit(m.group(3))} != 0))"))
            continue
        if re.fullmatch(r"_ => return Err\(Self::Error::InvalidType\(frame_type\)\),", line):
            seen_default = True
            continue
        raise ValueError(f"TryFrom<VarInt> for FrameType: arm outside the fragment: {line!r}")
    if not seen_default:
        raise ValueError("TryFrom<VarInt> for FrameType: default arm not found")

    # ---- From<FrameType> for VarInt
    enc_body = body_of(frame, r"impl From<FrameType> for VarInt \{", "From<FrameType>")
    enc_body = one(enc_body, r"match frame_type \{(.*)\}\s*\}\s*$", "From match").group(1)
    # the multi-line STREAM arm
    m = one(enc_body, r"FrameType::Stream\(offset, len, fin\) => \{\s*let offset: u8 = offset\.into\(\);\s*let len: u8 = len\.into\(\);\s*let fin: u8 = fin\.into\(\);\s*VarInt::from\((\w+?)(?:u8)? \| offset \| len \| fin\)\s*\}", "Stream arm of From<FrameType>")
    stream_base = lit(m.group(1))
    enc_rest = enc_body[:m.start()] + enc_body[m.end():]
    enc_arms = [(".stream o l f", f"{stream_base} ||| (if o then {off_bits[1]} else {off_bits[0]}) ||| (if l then {len_bits[1]} else {len_bits[0]}) ||| (if f then {fin_bits[1]} else {fin_bits[0]})")]
    for line in [l.strip() for l in enc_rest.split("\n") if l.strip()]:
        m = re.fullmatch(r"FrameType::(.+?) => VarInt::from_u32\((\w+)\),", line)
        if m and m.group(1) in VARIANTS:
            enc_arms.append((VARIANTS[m.group(1)], str(lit(m.group(2)))))
            continue
        m = re.fullmatch(r"FrameType::Datagram\(with_len\) => VarInt::from\((\w+) \| with_len\),", line)
        if m:
            enc_arms.append((".datagram w", f"{lit(m.group(1))} ||| (if w then 1 else 0)"))
            continue
        m = re.fullmatch(r"FrameType::(AddAddress|PunchMeNow)\(family\) => VarInt::from_u32\((\w+) \| family as u32\),", line)
        if m:
            c = ".addAddress" if m.group(1) == "AddAddress" else ".punchMeNow"
            enc_arms.append((f"{c} v6", f"{lit(m.group(2))} ||| (if v6 then {fam[1]} else {fam[0]})"))
            continue
        raise ValueError(f"From<FrameType> for VarInt: arm outside the fragment: {line!r}")

    # ---- belongs_to
    bt = body_of(frame, r"fn belongs_to\(&self, packet_type: Type\) -> bool \{(?=\s*use crate::packet)", "FrameType::belongs_to")
    for var, pat in (("i", r"Type::Long\(V1\(Ver1::INITIAL\)\)"), ("h", r"Type::Long\(V1\(Ver1::HANDSHAKE\)\)"),
                     ("o", r"Type::Long\(V1\(Ver1::ZERO_RTT\)\)"), ("l", r"Type::Short\(OneRtt\(_\)\)")):
        one(bt, r"let " + var + r" = matches!\(packet_type, " + pat + r"\);", f"belongs_to: definition of `{var}`")
    bt_match = one(bt, r"match self \{(.*)\}\s*$", "belongs_to match").group(1)
    m = one(bt_match, r"FrameType::ConnectionClose\(layer\) => match layer \{\s*Layer::App => ([iholIHOL| ]+),\s*Layer::Quic => ([iholIHOL| ]+),\s*\},", "belongs_to ConnectionClose arm")
    bt_arms = [(".connectionClose true", m.group(1)), (".connectionClose false", m.group(2))]
    bt_rest = bt_match[:m.start()] + bt_match[m.end():]
    for line in [l.strip() for l in bt_rest.split("\n") if l.strip()]:
        m = re.fullmatch(r"FrameType::(.+?) => ([ihol| ]+),", line)
        if m and m.group(1) in PATS:
            bt_arms.append((PATS[m.group(1)], m.group(2)))
            continue
        raise ValueError(f"belongs_to: arm outside the fragment: {line!r}")

    def bexpr(e):
        return " || ".join({"i": "p.isI", "h": "p.isH", "o": "p.isO", "l": "p.isL"}[x.strip()] for x in e.split("|"))

    # ---- specs
    impl_ft = body_of(frame, r"impl FrameFeature for FrameType \{", "impl FrameFeature for FrameType")
    sp = body_of(impl_ft, r"fn specs\(&self\) -> u8 \{", "FrameType::specs")
    spec_vals = {}
    for nm, letter in (("NonAckEliciting", "n"), ("CongestionControlFree", "c"), ("ProbeNewPath", "p"), ("FlowControlled", "f")):
        spec_vals[letter] = lit(one(frame, r"pub enum Spec \{.*?\b" + nm + r" = (\w+),", f"Spec::{nm}").group(1))
    one(sp, r"let \(n, c, p, f\) = \(\s*Spec::NonAckEliciting as u8,\s*Spec::CongestionControlFree as u8,\s*Spec::ProbeNewPath as u8,\s*Spec::FlowControlled as u8,\s*\);", "specs: letter bindings")
    sp_match = one(sp, r"match self \{(.*)\}\s*$", "specs match").group(1)
    sp_arms = []
    sp_default = None
    for line in [l.strip() for l in sp_match.split("\n") if l.strip()]:
        m = re.fullmatch(r"FrameType::(.+?) => ([ncpf| ]+),", line)
        if m and m.group(1) in PATS:
            v = 0
            for x in m.group(2).split("|"):
                v |= spec_vals[x.strip()]
            sp_arms.append((PATS[m.group(1)], v))
            continue
        m = re.fullmatch(r"_ => (\d+),", line)
        if m:
            sp_default = int(m.group(1))
            continue
        raise ValueError(f"specs: arm outside the fragment: {line!r}")
    if sp_default is None:
        raise ValueError("specs: default arm not found")

    # ---- ErrorKind
    ek_enum = body_of(err, r"pub enum ErrorKind \{", "enum ErrorKind")
    names = []
    for line in [l.strip() for l in ek_enum.split("\n") if l.strip()]:
        if line.startswith("#["):
            continue
        m = re.fullmatch(r"(\w+),", line)
        if m:
            names.append(m.group(1))
            continue
        if line == "Crypto(u8),":
            continue
        raise ValueError(f"enum ErrorKind: variant outside the fragment: {line!r}")
    ek_dec = body_of(err, r"impl TryFrom<VarInt> for ErrorKind \{", "TryFrom<VarInt> for ErrorKind")
    ek_dec = one(ek_dec, r"Ok\(match value\.into_u64\(\) \{(.*?)\n\s*\}\)", "ErrorKind TryFrom match").group(1)
    ekd = []
    for line in [l.strip() for l in ek_dec.split("\n") if l.strip()]:
        m = re.fullmatch(r"(\w+) => ErrorKind::(\w+),", line)
        if m and m.group(2) in names:
            ekd.append((f"n = {lit(m.group(1))}", f"some (.named {names.index(m.group(2))})"))
            continue
        m = re.fullmatch(r"(\w+)\.\.=(\w+) => ErrorKind::Crypto\(\(value\.into_u64\(\) & (\w+)\) as u8\),", line)
        if m:
            ekd.append((f"{lit(m.group(1))} ≤ n ∧ n ≤ {lit(m.group(2))}", f"some (.crypto ((n &&& {lit(m.group(3))}) % 256))"))
            continue
        if re.fullmatch(r"other => return Err\(InvalidErrorKind\(other\)\),", line):
            continue
        raise ValueError(f"TryFrom<VarInt> for ErrorKind: arm outside the fragment: {line!r}")
    ek_enc = body_of(err, r"impl From<ErrorKind> for VarInt \{", "From<ErrorKind> for VarInt")
    ek_enc = one(ek_enc, r"match value \{(.*)\}\s*\}\s*$", "ErrorKind From match").group(1)
    eke = {}
    crypto_base = None
    for line in [l.strip() for l in ek_enc.split("\n") if l.strip()]:
        m = re.fullmatch(r"ErrorKind::(\w+) => VarInt::from\((\w+)\),", line)
        if m and m.group(1) in names:
            eke[m.group(1)] = lit(m.group(2))
            continue
        m = re.fullmatch(r"ErrorKind::Crypto\(x\) => VarInt::from\((\w+) \| x as u16\),", line)
        if m:
            crypto_base = lit(m.group(1))
            continue
        raise ValueError(f"From<ErrorKind> for VarInt: arm outside the fragment: {line!r}")
    if crypto_base is None or set(eke) != set(names):
        raise ValueError("From<ErrorKind> for VarInt: not every variant has an arm")

    L = lean_header("GmQuic.Gen")
    L[1:1] = ["import GmQuic.Model.FrameType"]
    L += ["open GmQuic.Codec", "",
          "/-- qbase/src/frame.rs `impl TryFrom<VarInt> for FrameType` -/",
          "def frameTypeOfNat (n : Nat) : Option FrameType :="]
    for cond, res in dec_arms:
        L.append(f"  if {cond} then {res} else")
    L += ["  none", "", "/-- qbase/src/frame.rs `impl From<FrameType> for VarInt` -/", "def natOfFrameType : FrameType → Nat"]
    for pat, val in enc_arms:
        L.append(f"  | {pat} => {val}")
    L += ["", "/-- qbase/src/frame.rs `FrameType::belongs_to` -/", "def belongsTo (t : FrameType) (p : PktType) : Bool :=", "  match t with"]
    for pat, e in bt_arms:
        L.append(f"  | {pat} => {bexpr(e)}")
    L += ["", "/-- qbase/src/frame.rs `FrameType::specs` -/", "def specs : FrameType → Nat"]
    for pat, v in sp_arms:
        L.append(f"  | {pat} => {v}")
    L += [f"  | _ => {sp_default}", "",
          "/-- qbase/src/error.rs `enum ErrorKind`, fieldless variants in declaration order -/",
          "def errKindNames : List String := [" + ", ".join(f'"{n}"' for n in names) + "]",
          f"def errKindCount : Nat := {len(names)}", "",
          "/-- qbase/src/error.rs `impl TryFrom<VarInt> for ErrorKind` -/", "def errKindOfNat (n : Nat) : Option EKind :="]
    for cond, res in ekd:
        L.append(f"  if {cond} then {res} else")
    L += ["  none", "", "/-- qbase/src/error.rs `impl From<ErrorKind> for VarInt` -/", "def natOfErrKind : EKind → Nat"]
    for i, n in enumerate(names):
        L.append(f"  | .named {i} => {eke[n]}")
    L += ["  | .named _ => 0", f"  | .crypto x => {crypto_base} ||| (x % 256)", "", "end GmQuic.Gen", ""]
    g.extra_items = ["frameTypeOfNat", "natOfFrameType", "belongsTo", "specs", "errKindOfNat", "natOfErrKind", "errKindNames"]
    return "\n".join(L)
