"""C12: literal constants and comparison operators of the stream-id bookkeeping -> Gen/SidConsts.lean

* `MAX_STREAMS_LIMIT` (qbase/src/sid.rs),
* the bit layout of `StreamId::new` / `role()` / `dir()` / `id()` / `next_unchecked()`,
* the bound of the MAX_STREAMS parser (qbase/src/frame/max_streams.rs).
Every pattern must match the source text; a source that leaves the shape is reported as untranslated."""
NAME = "SidConsts"


def generate(g):
    from xlate import lean_header
    sid = "qbase/src/sid.rs"
    g.const("maxStreamsLimit", sid, r"pub const MAX_STREAMS_LIMIT: u64 = ([^;]+);")
    # Self((((id << 1) | (dir as u64)) << 1) | (role as u64))
    g.const("sidDirShift", sid, r"Self\(\(\(\(id << (\d+)\) \| \(dir as u64\)\) << \d+\) \| \(role as u64\)\)")
    g.const("sidRoleShift", sid, r"Self\(\(\(\(id << \d+\) \| \(dir as u64\)\) << (\d+)\) \| \(role as u64\)\)")
    g.const("sidRoleMask", sid, r"if self\.0 & (0x1) == 0 \{\s*Role::Client")
    g.const("sidDirMask", sid, r"if self\.0 & (2) == 0 \{ Dir::Bi \} else \{ Dir::Uni \}")
    g.const("sidIdShift", sid, r"pub fn id\(&self\) -> u64 \{\s*self\.0 >> (\d+)\s*\}")
    g.const("sidNextStep", sid, r"unsafe fn next_unchecked\(&self\) -> Self \{\s*Self\(self\.0 \+ (\d+)\)")
    g.const("dirBi", sid, r"Bi = (\d+),")
    g.const("dirUni", sid, r"Uni = (\d+),")
    lines = lean_header()
    for name, v, srcinfo in g.items:
        lines.append(f"/-- {srcinfo} -/")
        lines.append(f"def {name} : Nat := {v}")
    lines += ["", "end GmQuic.Gen", ""]
    return "\n".join(lines)
