"""C07: literal widths of the packet-number codec -> Gen/PnConsts.lean

Read from qbase/src/packet/number.rs (`encode` casts, `decode` window widths, `size`, `put_packet_number`,
`take_pn_len`) and qrecovery/src/journal/sent.rs (initial largest-acked).  The thresholds of `encode`
themselves are in Gen/Consts.lean (gen_consts.py).  Every pattern must match exactly once-shaped source
text; a source that leaves the shape is reported as untranslated (never guessed)."""
NAME = "PnConsts"


def generate(g):
    from xlate import lean_header
    num = "qbase/src/packet/number.rs"
    # encode: which integer cast fills which variant; the U24 variant is a u32 and must be masked to 24 bits
    # (`Self::U24(pn as u32 & 0x00ff_ffff)`, fix-C07-u24-mask).  The unmasked shape `Self::U24(pn as u32)` is
    # still recognised and translated as "mask = all 32 bits", so that on such a tree the Lean proofs fail
    # (decode_encode_inmem) instead of the translator merely refusing.
    import re
    from xlate import read
    for v in ("8", "16", "32"):
        g.const(f"pnCast{v}", num, r"Self::U%s\(pn as u(\d+)\)" % v)
    g.const("pnCast24", num, r"Self::U24\(pn as u(\d+)(?: & 0x[0-9a-fA-F_]+)?\)")
    if re.search(r"Self::U24\(pn as u32\)", read(g.repo, num)):
        g.items.append(("pnMask24", 2 ** 32 - 1, f"{num}: `Self::U24(pn as u32)` (NO mask: all 32 bits kept)"))
    else:
        g.const("pnMask24", num, r"Self::U24\(pn as u32 & (0x[0-9a-fA-F_]+)\)")
    # decode: (truncated, nbits) table and the half window
    for v in ("8", "16", "24", "32"):
        g.const(f"pnBits{v}", num, r"U%s\(x\) => \(u64::from\(x\), (\d+)\)" % v)
    g.const("pnWinOne", num, r"let win = (1) << nbits;")
    g.const("pnHwinDiv", num, r"let hwin = win / (\d+);")
    g.const("pnMaskSub", num, r"let mask = win - (\d+);")
    # size()
    for v in ("8", "16", "24", "32"):
        g.const(f"pnSize{v}", num, r"U%s\(_\) => (\d+)," % v)
    # put_packet_number: U8 -> put_u8, U16 -> put_u16, U24 -> put_u8(x >> 16) ++ put_u16(x), U32 -> put_u32
    g.const("pnPut8", num, r"U8\(x\) => self\.put_u(\d+)\(x\),")
    g.const("pnPut16", num, r"U16\(x\) => self\.put_u(\d+)\(x\),")
    g.const("pnPut24Shift", num, r"U24\(x\) => \{\s*self\.put_u8\(\(x >> (\d+)\) as u8\);\s*self\.put_u16\(x as u16\);\s*\}")
    g.const("pnPut32", num, r"U32\(x\) => self\.put_u(\d+)\(x\),")
    # take_pn_len: length -> parser width
    for ln, v in (("1", "8"), ("2", "16"), ("3", "24"), ("4", "32")):
        g.const(f"pnTake{ln}", num, r"%s => map\(be_u(\d+), PacketNumber::U%s\)\.parse\(input\)," % (ln, v))
    # sent journal: largest acked starts at 0 (there is no "nothing acked yet" value)
    g.const("sjInitLargestAcked", "qrecovery/src/journal/sent.rs",
            r"sent_packets: IndexDeque::with_capacity\(capacity\),\s*largest_acked_pktno: (\d+),")
    lines = lean_header()
    for name, v, srcinfo in g.items:
        lines.append(f"/-- {srcinfo} -/")
        lines.append(f"def {name} : Nat := {v}")
    lines += ["", "end GmQuic.Gen", ""]
    return "\n".join(lines)
