"""T5 (third part): transport-parameter value encoders  ->  Gen/ParamCodec.lean

qbase/src/param/io.rs `WriteParameter::{put_bytes_parameter, put_cid_parameter, put_bool_parameter,
put_reset_token_parameter, put_varint_parameter, put_duration_parameter}` (straight-line `put_*`
sequences; `put_duration_parameter` calls `put_varint_parameter`, which is inlined), with
`put_parameter_id`, `put_reset_token`, `ResetToken::encoding_size` read from their own bodies.  Same
fragment / refusal rule as gen_framecodec.py.  `Props/C05/GeneratedParams.lean` proves each equal to
the arm of `Model/ParamsEnc.lean` `encParam`.  NOT generated: `put_preferred_address_parameter`
(needs the PreferredAddress codec of Model/Addr, an opaque image in `PVal.pref`), the `put_parameter`
dispatch (its arms are pinned by a shape guard), `put_parameters` (HashMap iteration), the decoder.
"""
import os, re, sys
sys.path.insert(0, os.path.dirname(os.path.abspath(__file__)))
import gen_framecodec as FC
from rustfrag import Outside, parse_block, find_body

NAME = "ParamCodec"
IO = "qbase/src/param/io.rs"
V = FC.V
# method -> (parameter name, symbolic value, lean binder)
METHODS = {
    "put_bytes_parameter": ("bytes", V("bytes", "b"), "(b : Bytes)", "bytes: &Bytes"),
    "put_cid_parameter": ("cid", V("cid", "c"), "(c : Bytes)", "cid: &ConnectionId"),
    "put_bool_parameter": (None, None, "", None),
    "put_reset_token_parameter": ("token", V("resettoken", "t"), "(t : Bytes)", "token: &ResetToken"),
    "put_varint_parameter": ("value", V("varint", "n"), "(n : Nat)", "value: &VarInt"),
    "put_duration_parameter": ("dur", V("duration", "ms"), "(ms : Nat)", "dur: &Duration"),
    # the PreferredAddress value is the opaque byte image of Model/Addr (`PVal.pref b`): `addr.encoding_size()` is the
    # image length and `put_preferred_address(addr)` writes the image (both proved about the Addr model in Props/C05/Addr)
    "put_preferred_address_parameter": ("addr", V("prefimg", "b"), "(b : Bytes)", "addr: &PreferredAddress"),
}
VARIANT = {"Bytes": (".bytes x", "put_bytes_parameter"), "ConnectionId": (".cid x", "put_cid_parameter"), "Duration": (".dur x", "put_duration_parameter"),
           "True": (".tru", "put_bool_parameter"), "PreferredAddress": (".pref x", "put_preferred_address_parameter"),
           "ResetToken": (".token x", "put_reset_token_parameter"), "VarInt": (".varint x", "put_varint_parameter")}
DISPATCH = r"""fn put_parameter\(&mut self, id: ParameterId, value: &ParameterValue\) \{\s*match value \{\s*ParameterValue::Bytes\(bytes\) => self\.put_bytes_parameter\(id, bytes\),\s*ParameterValue::ConnectionId\(cid\) => self\.put_cid_parameter\(id, cid\),\s*ParameterValue::Duration\(dur\) => self\.put_duration_parameter\(id, dur\),\s*ParameterValue::True => self\.put_bool_parameter\(id\),\s*ParameterValue::PreferredAddress\(addr\) => \{\s*self\.put_preferred_address_parameter\(id, addr\)\s*\}\s*ParameterValue::ResetToken\(token\) => self\.put_reset_token_parameter\(id, token\),\s*ParameterValue::VarInt\(varint\) => self\.put_varint_parameter\(id, varint\),\s*\}\s*\}"""


def generate(g):
    from xlate import lean_header
    src = FC.src_of(g, IO)
    tok = FC.src_of(g, "qbase/src/token.rs")
    L = lean_header("GmQuic.Gen.ParamCodec")
    L[1:1] = ["import GmQuic.Model.Params"]
    L += ["set_option linter.unusedVariables false", "open GmQuic.Wire GmQuic.Params", ""]
    for rel, text, rx in ((IO, src, r"fn put_parameter_id\(&mut self, param_id: ParameterId\) \{\s*self\.put_varint\(&VarInt::from\(param_id\)\);\s*\}"),
                          ("qbase/src/token.rs", tok, r"fn put_reset_token\(&mut self, token: &ResetToken\) \{\s*self\.put_slice\(token\.as_slice\(\)\);\s*\}")):
        if not re.search(rx, text, re.S):
            g.untranslated.append(f"ParamCodec: shape guard failed in {rel}: /{rx[:50]}…/")
    items = []
    trait, _ = find_body(src, r"pub trait WriteParameter \{", "trait WriteParameter")
    impl, _ = find_body(src, r"impl<T: bytes::BufMut> WriteParameter for T \{", "impl WriteParameter")
    spec = {"name": "param", "struct": "", "fields": []}

    def body_of(method, decl):
        sig = r"fn " + method + r"\(&mut self, id: ParameterId" + (r", " + re.escape(decl) if decl else "") + r"\) \{"
        for where in (impl, trait):
            if re.search(sig, where):
                return find_body(where, sig, method)[0]
        raise Outside(f"{method}: body not found with the expected signature")

    def translate(method, val, depth=0):
        pname, _, _, decl = METHODS[method]
        ctx = FC.Ctx(g, spec, src, IO)
        ctx.asserts = []

        def hook(name, args):
            if name == "put_parameter_id" and len(args) == 1 and args[0].kind == "paramid":
                return ["encVarint id"]
            if name == "put_reset_token" and len(args) == 1 and args[0].kind == "resettoken":
                return [args[0].term]
            if name == "put_preferred_address" and len(args) == 1 and args[0].kind == "prefimg":
                return [args[0].term]
            if name in METHODS and depth == 0 and len(args) == 2 and args[0].kind == "paramid" and args[1].kind == "varint" and name == "put_varint_parameter":
                return translate(name, args[1], depth + 1)
            return None
        ctx.put_hook = hook
        env = {"id": V("paramid", "id")}
        if pname:
            env[pname] = val
        return FC.run(parse_block(body_of(method, decl)), env, ctx, "self")

    for method, (pname, val, binder, decl) in METHODS.items():
        try:
            bs = translate(method, val)
            nm = "penc_" + method[len("put_"):-len("_parameter")]
            L += [f"/-- {IO} `WriteParameter::{method}` -/", f"def {nm} (id : Nat) {binder} : Bytes :=".replace("  ", " "), f"  {FC.cat(bs)}", ""]
            items.append(nm)
        except Outside as ex:
            g.untranslated.append(f"{method}: {ex}")
    # ---- put_parameter (dispatch on the value) and put_parameters (iteration over the map)
    try:
        body = find_body(trait, r"fn put_parameter\(&mut self, id: ParameterId, value: &ParameterValue\) \{", "put_parameter")[0]
        b = parse_block(body)
        if b[1] or b[2] is None or b[2][0] != "match" or b[2][1] != ("path", ["value"]):
            raise Outside("put_parameter is not `match value`")
        arms = []
        for pat, e in b[2][2]:
            if e[0] == "block" and not e[1]:
                e = e[2]
            if pat[0] != "pctor" or pat[1][0] != "ParameterValue" or pat[1][1] not in VARIANT:
                raise Outside(f"put_parameter arm pattern {pat}")
            ctor, _ = VARIANT[pat[1][1]]
            binders = [p[1] for p in (pat[2] or [])]
            want_args = [("path", ["id"])] + [("path", [x]) for x in binders]
            if e[0] != "mcall" or e[1] != ("path", ["self"]) or e[2] not in METHODS or e[3] != want_args:
                raise Outside(f"put_parameter arm {pat[1][1]} is not `self.put_<kind>_parameter(id, <binder>)`")
            nm = "penc_" + e[2][len("put_"):-len("_parameter")]
            if nm not in items:
                raise Outside(f"put_parameter arm {pat[1][1]} calls `{e[2]}`, which was not translated")
            arms.append(f"  | {ctor} => {nm} id" + (" x" if binders else ""))
        if len(arms) != len(VARIANT):
            raise Outside("put_parameter does not have one arm per ParameterValue variant")
        L += [f"/-- {IO} `WriteParameter::put_parameter` -/", "def penc (id : Nat) : PVal → Bytes"] + arms + [""]
        items.append("penc")
        body = FC.fn_body(src, r"impl<Role, T: bytes::BufMut> WriteParameters<Role> for T \{", r"fn put_parameters\(&mut self, params: &Parameters<Role>\) \{", "put_parameters")
        b = parse_block(body)
        want = ("for", ("ptuple", [("pbind", "id"), ("pbind", "value")]), ("ref", ("field", ("path", ["params"]), "map")),
                ("block", [("expr", ("mcall", ("path", ["self"]), "put_parameter", [("deref", ("path", ["id"])), ("path", ["value"])]))], None))
        if b[1] != [want] or b[2] is not None:
            raise Outside("put_parameters is not `for (id, value) in &params.map { self.put_parameter(*id, value); }`")
        L += [f"/-- {IO} `WriteParameters::put_parameters`, for the iteration order `m` of the map -/", "def penc_all (m : PMap) : Bytes :=", "  m.flatMap fun e => penc e.1 e.2", ""]
        items.append("penc_all")
    except Outside as ex:
        g.untranslated.append(f"put_parameter(s): {ex}")
    L += ["end GmQuic.Gen.ParamCodec", ""]
    g.extra_items = items
    return "\n".join(L)


if __name__ == "__main__":
    from xlate import Gen
    g = Gen(sys.argv[1] if len(sys.argv) > 1 else "/repo")
    print(generate(g))
    print("UNTRANSLATED:", *g.untranslated, sep="\n  ", file=sys.stderr)
