"""T5 (third part): transport-parameter value encoders  ->  Gen/ParamCodec.lean

qbase/src/param/io.rs `WriteParameter::{put_bytes_parameter, put_cid_parameter, put_bool_parameter,
put_reset_token_parameter, put_varint_parameter, put_duration_parameter}` (straight-line `put_*`
sequences; `put_duration_parameter` calls `put_varint_parameter`, which is inlined), with
`put_parameter_id`, `put_reset_token`, `ResetToken::encoding_size` read from their own bodies.  Same
fragment / refusal rule as gen_framecodec.py.  `Props/C05/GeneratedParams.lean` proves each equal to
the arm of `Model/ParamsEnc.lean` `encParam`.  NOT generated: `put_preferred_address_parameter`
(needs the PreferredAddress codec of Model/Addr, an opaque image in `PVal.pref`), the `put_parameter`
dispatch (its arms are pinned by a shape guard), `put_parameters` (HashMap iteration), the decoder.
"""
import os, re, sys
sys.path.insert(0, os.path.dirname(os.path.abspath(__file__)))
import gen_framecodec as FC
from rustfrag import Outside, parse_block, find_body

NAME = "ParamCodec"
IO = "qbase/src/param/io.rs"
V = FC.V
# method -> (parameter name, symbolic value, lean binder)
METHODS = {
    "put_bytes_parameter": ("bytes", V("bytes", "b"), "(b : Bytes)", "bytes: &Bytes"),
    "put_cid_parameter": ("cid", V("cid", "c"), "(c : Bytes)", "cid: &ConnectionId"),
    "put_bool_parameter": (None, None, "", None),
    "put_reset_token_parameter": ("token", V("resettoken", "t"), "(t : Bytes)", "token: &ResetToken"),
    "put_varint_parameter": ("value", V("varint", "n"), "(n : Nat)", "value: &VarInt"),
    "put_duration_parameter": ("dur", V("duration", "ms"), "(ms : Nat)", "dur: &Duration"),
}
DISPATCH = r"""fn put_parameter\(&mut self, id: ParameterId, value: &ParameterValue\) \{\s*match value \{\s*ParameterValue::Bytes\(bytes\) => self\.put_bytes_parameter\(id, bytes\),\s*ParameterValue::ConnectionId\(cid\) => self\.put_cid_parameter\(id, cid\),\s*ParameterValue::Duration\(dur\) => self\.put_duration_parameter\(id, dur\),\s*ParameterValue::True => self\.put_bool_parameter\(id\),\s*ParameterValue::PreferredAddress\(addr\) => \{\s*self\.put_preferred_address_parameter\(id, addr\)\s*\}\s*ParameterValue::ResetToken\(token\) => self\.put_reset_token_parameter\(id, token\),\s*ParameterValue::VarInt\(varint\) => self\.put_varint_parameter\(id, varint\),\s*\}\s*\}"""


def generate(g):
    from xlate import lean_header
    src = FC.src_of(g, IO)
    tok = FC.src_of(g, "qbase/src/token.rs")
    L = lean_header("GmQuic.Gen.ParamCodec")
    L[1:1] = ["import GmQuic.Model.Wire"]
    L += ["set_option linter.unusedVariables false", "open GmQuic.Wire", ""]
    for rel, text, rx in ((IO, src, r"fn put_parameter_id\(&mut self, param_id: ParameterId\) \{\s*self\.put_varint\(&VarInt::from\(param_id\)\);\s*\}"),
                          (IO, src, DISPATCH),
                          ("qbase/src/token.rs", tok, r"fn put_reset_token\(&mut self, token: &ResetToken\) \{\s*self\.put_slice\(token\.as_slice\(\)\);\s*\}")):
        if not re.search(rx, text, re.S):
            g.untranslated.append(f"ParamCodec: shape guard failed in {rel}: /{rx[:50]}…/")
    items = []
    trait, _ = find_body(src, r"pub trait WriteParameter \{", "trait WriteParameter")
    impl, _ = find_body(src, r"impl<T: bytes::BufMut> WriteParameter for T \{", "impl WriteParameter")
    spec = {"name": "param", "struct": "", "fields": []}

    def body_of(method, decl):
        sig = r"fn " + method + r"\(&mut self, id: ParameterId" + (r", " + re.escape(decl) if decl else "") + r"\) \{"
        for where in (impl, trait):
            if re.search(sig, where):
                return find_body(where, sig, method)[0]
        raise Outside(f"{method}: body not found with the expected signature")

    def translate(method, val, depth=0):
        pname, _, _, decl = METHODS[method]
        ctx = FC.Ctx(g, spec, src, IO)
        ctx.asserts = []

        def hook(name, args):
            if name == "put_parameter_id" and len(args) == 1 and args[0].kind == "paramid":
                return ["encVarint id"]
            if name == "put_reset_token" and len(args) == 1 and args[0].kind == "resettoken":
                return [args[0].term]
            if name in METHODS and depth == 0 and len(args) == 2 and args[0].kind == "paramid" and args[1].kind == "varint" and name == "put_varint_parameter":
                return translate(name, args[1], depth + 1)
            return None
        ctx.put_hook = hook
        env = {"id": V("paramid", "id")}
        if pname:
            env[pname] = val
        return FC.run(parse_block(body_of(method, decl)), env, ctx, "self")

    for method, (pname, val, binder, decl) in METHODS.items():
        try:
            bs = translate(method, val)
            nm = "penc_" + method[len("put_"):-len("_parameter")]
            L += [f"/-- {IO} `WriteParameter::{method}` -/", f"def {nm} (id : Nat) {binder} : Bytes :=".replace("  ", " "), f"  {FC.cat(bs)}", ""]
            items.append(nm)
        except Outside as ex:
            g.untranslated.append(f"{method}: {ex}")
    L += ["end GmQuic.Gen.ParamCodec", ""]
    g.extra_items = items
    return "\n".join(L)


if __name__ == "__main__":
    from xlate import Gen
    g = Gen(sys.argv[1] if len(sys.argv) > 1 else "/repo")
    print(generate(g))
    print("UNTRANSLATED:", *g.untranslated, sep="\n  ", file=sys.stderr)
