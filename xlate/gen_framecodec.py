"""T5: per-frame codec bodies of qbase/src/frame/*.rs  ->  Gen/FrameCodec.lean

For every frame kind the four functions of the codec are translated from the Rust SOURCE TEXT when
their bodies are inside the restricted fragment below; `Props/C05/Generated.lean` proves each
generated definition EQUAL to the hand-written model (`Model/Frame.lean`) for all values, so an
edit of an encoder / size function / parser in the Rust text breaks a proof obligation on the next
run (or makes this translator refuse, which `./check` reports as a VIOLATION as well).

Fragment (everything else raises `Outside` = refusal, nothing is guessed):
* `encoding_size` / `max_encoding_size`: integer literals, named `const`s (resolved textually),
  `+` `*`, `x.encoding_size()` on VarInt / StreamId / SocketAddr / EcnCounts (the latter two by
  translating their own `encoding_size`), `.len()`, `x as usize|u64|u32|u8`, `VarInt::from_u32(..)`,
  `VarInt::from(frame_type | nat_type | error_kind | error_frame_type)`,
  `VarInt::try_from(n).unwrap()` / `VarInt::from_u64(n).expect(..)` (value < 2^62 is a recorded
  precondition: the Rust panics otherwise), `if c {..} else {..}`, `if let Some(x) = opt.as_ref()`,
  `match self { Variant(x) => .. }`, `match addr.ip() { V4(_) => .., V6(_) => .. }`,
  `b.then_some(x).map(VarInt::encoding_size).unwrap_or_default()`,
  `xs.iter().map(|(a, b)| ..).sum::<usize>()`, `let`.
* `put_frame` / `put_data_frame`: straight-line `put_frame_type / put_varint / put_streamid /
  put_slice / put_u8 / put_u16 / put_u32 / put_u128 / put_connection_id / put_socket_addr /
  put_data`, under `if c {..}`, `if let Some(x) = &opt {..}`, `match frame {..}`, `match ip {..}`,
  `for (a, b) in &xs {..}`, `let`, `assert_eq!` (recorded as the panic precondition of `enc`).
* parsers: `map(P, ctor)`, tuples / `pair`, `flat_map`, `take(n)` (streaming / complete according to
  the `use` in scope), `be_varint`, `be_streamid`, `be_connection_id`, `be_reset_token`,
  `be_socket_addr`, and `let (rest, x) = P(rest)?;` sequences whose input variable is the remainder
  bound last (anything else is refused), explicit `if c { return Err(nom::Err::Error(.. Kind)) }`
  checks, `T::try_from(v).map_err(..)?`, a final `Ok((rest, Struct {..}))`.

Trusted: the binding of Rust field names to the arguments of the model's `Frame` constructors
(`SPECS` below; the struct declarations are checked against it), the meaning of the primitives
(`put_varint` = `encVarint`, `be_varint` = `pVarint`, ... ; the one-line helper bodies are guarded by
`GUARDS`), `GetFrameType::frame_type` (= `Frame.type`, tied by the differential run).
"""
import re, os, sys
sys.path.insert(0, os.path.dirname(os.path.abspath(__file__)))
from rustfrag import Outside, parse_block, find_body, strip_comments, struct_fields

NAME = "FrameCodec"
FR = "qbase/src/frame/"

# one-line helper bodies the primitives stand for: (file, regex on comment-stripped text)
GUARDS = [
    ("qbase/src/sid.rs", r"fn put_streamid\(&mut self, stream_id: &StreamId\) \{\s*self\.put_varint\(&\(\*stream_id\)\.into\(\)\);\s*\}"),
    ("qbase/src/sid.rs", r"pub fn be_streamid\(input: &\[u8\]\) -> nom::IResult<&\[u8\], StreamId> \{\s*use nom::\{Parser, combinator::map\};\s*map\(be_varint, StreamId::from\)\.parse\(input\)\s*\}"),
    ("qbase/src/sid.rs", r"pub fn encoding_size\(&self\) -> usize \{\s*VarInt::from\(\*self\)\.encoding_size\(\)\s*\}"),
    ("qbase/src/cid/connection_id.rs", r"fn put_connection_id\(&mut self, cid: &ConnectionId\) \{\s*self\.put_u8\(cid\.len\);\s*self\.put_slice\(cid\);\s*\}"),
    ("qbase/src/token.rs", r"use nom::\{IResult, bytes::complete::take\};"),
    ("qbase/src/token.rs", r"pub fn be_reset_token\(input: &\[u8\]\) -> IResult<&\[u8\], ResetToken> \{\s*let \(input, bytes\) = take\(RESET_TOKEN_SIZE\)\(input\)\?;\s*Ok\(\(input, ResetToken::new\(bytes\)\)\)\s*\}"),
    ("qbase/src/frame/io.rs", r"fn put_frame_type\(&mut self, frame_type: FrameType\) \{\s*use crate::varint::WriteVarInt;\s*let fty: VarInt = frame_type\.into\(\);\s*self\.put_varint\(&fty\);\s*\}"),
    ("qbase/src/net/nat.rs", r"impl From<NatType> for VarInt \{\s*fn from\(nat_type: NatType\) -> Self \{\s*VarInt::from\(nat_type as u8\)\s*\}"),
    ("qbase/src/net/nat.rs", r"impl TryFrom<VarInt> for NatType \{\s*type Error = io::Error;\s*fn try_from\(value: VarInt\) -> Result<Self, Self::Error> \{\s*Self::try_from\(value\.into_u64\(\) as u8\)\s*\}"),
    ("qbase/src/net.rs", r"number::complete::\{be_u16, be_u32, be_u128\}"),
    ("qbase/src/frame/path_challenge.rs", r"pub fn from_slice\(data: &\[u8\]\) -> Self \{\s*let mut frame = Self \{ data: \[0; 8\] \};\s*frame\.data\.copy_from_slice\(data\);\s*frame\s*\}"),
    ("qbase/src/frame/path_response.rs", r"fn from_slice\(data: &\[u8\]\) -> Self \{\s*let mut frame = Self \{ data: \[0; 8\] \};\s*frame\.data\.copy_from_slice\(data\);\s*frame\s*\}"),
    ("qbase/src/frame/new_token.rs", r"pub fn from_slice\(token: &\[u8\]\) -> Self \{\s*Self \{\s*token: token\.to_vec\(\),\s*\}\s*\}"),
    ("qbase/src/frame.rs", r"fn max_encoding_size\(&self\) -> usize \{\s*1\s*\}.*?fn encoding_size\(&self\) -> usize \{\s*1\s*\}"),
]


# ------------------------------------------------------------------------------------------------
# symbolic values
class V:
    def __init__(self, kind, term=None, **kw):
        self.kind, self.term = kind, term
        self.__dict__.update(kw)

    def __repr__(self):
        return f"V({self.kind},{self.term})"


def atomic(t):
    t = t.strip()
    if re.fullmatch(r"[\w.']+", t):
        return True
    if t[0] == "(" and t[-1] == ")":
        d = 0
        for i, c in enumerate(t):
            d += c == "("
            d -= c == ")"
            if d == 0 and i < len(t) - 1:
                return False
        return True
    if t[0] == "[" and t[-1] == "]":
        return True
    return False


def par(t):
    return t if atomic(t) else "(" + t + ")"


class Ctx:
    def __init__(self, g, spec, src, fname):
        self.g, self.spec, self.src, self.fname = g, spec, src, fname
        self.pre = []          # preconditions (panic otherwise) met while translating
        self.assume = []
        self.n = 0

    def fresh(self, p):
        self.n += 1
        return f"{p}{self.n}"


FILES = {}


def src_of(g, rel):
    from xlate import read
    if (g.repo, rel) not in FILES:
        FILES[(g.repo, rel)] = strip_comments(read(g.repo, rel))
    return FILES[(g.repo, rel)]


def const_value(ctx, name):
    for rel in (ctx.fname, "qbase/src/token.rs", "qbase/src/varint.rs", "qbase/src/sid.rs", "qbase/src/cid/connection_id.rs"):
        m = re.search(r"pub const " + name + r": (?:usize|u64|VarInt) = ([^;]+);", src_of(ctx.g, rel))
        if m:
            return m.group(1), rel
    raise Outside(f"constant {name} not found")


# ------------------------------------------------------------------------------------------------
# value expressions (sizes, conditions, arguments of put_*)
def field_of(v, name, ctx):
    if v.kind == "struct":
        if name not in v.fields:
            raise Outside(f"unknown field `{name}` of {v.sname}")
        return v.fields[name]
    if v.kind == "cid" and name == "len":
        return V("nat", f"{v.term}.length")
    raise Outside(f"field `.{name}` of a {v.kind}")


def ev(e, env, ctx):
    k = e[0]
    if k == "int":
        return V("nat", str(e[1]))
    if k == "path":
        segs = e[1]
        if len(segs) == 1:
            n = segs[0]
            if n in env:
                return env[n]
            if n.isupper() or re.fullmatch(r"[A-Z][A-Z0-9_]+", n):
                if n == "VARINT_MAX":
                    return V("nat", "varintMax")
                if n == "MAX_STREAMS_LIMIT":
                    return V("nat", "maxStreamsLimit")
                txt, rel = const_value(ctx, n)
                sub = Ctx(ctx.g, ctx.spec, src_of(ctx.g, rel), rel)
                return ev(parse_block(txt)[2], {}, sub)
            raise Outside(f"unbound name `{n}`")
        p = "::".join(segs)
        if p == "Len::Explicit":
            return V("lenbit", "true")
        if p == "Len::Omit":
            return V("lenbit", "false")
        if p == "Offset::NonZero":
            return V("lenbit", "true")
        if p == "Ecn::Exist":
            return V("lenbit", "true")
        if p in ("VarInt::encoding_size",):
            return V("fn", p)
        raise Outside(f"path `{p}`")
    if k in ("ref", "deref"):
        return ev(e[1], env, ctx)
    if k == "field":
        return field_of(ev(e[1], env, ctx), e[2], ctx)
    if k == "bin":
        op = e[1]
        a, b = ev(e[2], env, ctx), ev(e[3], env, ctx)
        if op in ("+", "*"):
            if a.kind != "nat" or b.kind != "nat":
                raise Outside(f"`{op}` on {a.kind}, {b.kind}")
            # same association as Rust (left), parenthesise only a compound right operand
            return V("nat", f"{a.term if op == '+' or atomic(a.term) else par(a.term)} {op} {par(b.term)}")
        if op in (">", "<", ">=", "<="):
            ta, tb = num(a), num(b)
            return V("bool", f"{ta} {op.replace('>=', '≥').replace('<=', '≤')} {tb}")
        if op in ("==", "!="):
            if a.kind == "lenbit" or b.kind == "lenbit":
                x, c = (a, b) if b.term in ("true", "false") else (b, a)
                pos = (c.term == "true") == (op == "==")
                return V("bool", x.term if pos else f"!{x.term}")
            ta, tb = num(a), num(b)
            return V("bool", f"{ta} {op} {tb}")
        raise Outside(f"operator `{op}`")
    if k == "cast":
        a = ev(e[1], env, ctx)
        t = num(a)
        if e[2] in ("usize", "u64"):
            return V("nat", t)
        if e[2] == "u32":
            return V("nat", f"{par(t)} % 2 ^ 32")
        if e[2] == "u8":
            return V("nat", f"{par(t)} % 256")
        raise Outside(f"cast to {e[2]}")
    if k == "block":
        env = dict(env)
        for s in e[1]:
            if s[0] == "let" and s[1][0] == "pbind":
                env[s[1][1]] = ev(s[2], env, ctx)
            elif s[0] == "use":
                pass
            else:
                raise Outside(f"statement `{s[0]}` in a value block")
        if e[2] is None:
            raise Outside("value block without tail expression")
        return ev(e[2], env, ctx)
    if k == "if":
        c = ev(e[1], env, ctx)
        if c.kind not in ("bool", "lenbit") or e[3] is None:
            raise Outside("if without else / non-boolean condition")
        a, b = ev(e[2], env, ctx), ev(e[3], env, ctx)
        if a.kind != "nat" or b.kind != "nat":
            raise Outside("if branches are not integers")
        return V("nat", f"(if {c.term} then {a.term} else {b.term})")
    if k == "iflet":
        pat, scrut = e[1], ev(e[2], env, ctx)
        if scrut.kind == "optecn" and pat[0] == "pctor" and pat[1] == ["Some"] and pat[2][0][0] == "pbind" and e[4] is not None:
            env2 = dict(env)
            env2[pat[2][0][1]] = ecn_struct("a", "b", "c")
            a, b = ev(e[3], env2, ctx), ev(e[4], env, ctx)
            return V("nat", f"(match {scrut.term} with | some (a, b, c) => {a.term} | none => {b.term})")
        raise Outside("if-let outside the fragment")
    if k == "match":
        scrut = ev(e[1], env, ctx)
        return ev_match(scrut, e[2], env, ctx, lambda body, env2: ev(body, env2, ctx), "nat")
    if k == "index":
        b, idx = ev(e[1], env, ctx), e[2]
        if b.kind == "bytes" and idx[0] == "range" and idx[1] is None and idx[2] is not None:
            return V("bytes", f"{par(b.term)}.take {par(num(ev(idx[2], env, ctx)))}")
        raise Outside("indexing outside the fragment (only `bytes[..n]`)")
    if k == "mcall":
        return ev_mcall(e, env, ctx)
    if k == "call":
        return ev_call(e, env, ctx)
    raise Outside(f"expression `{k}` outside the value fragment")


def num(v):
    if v.kind in ("nat", "varint", "sid", "nattype"):
        return v.term
    raise Outside(f"a {v.kind} used as a number")


def ecn_struct(a, b, c):
    return V("struct", sname="EcnCounts", fields={"ect0": V("varint", a), "ect1": V("varint", b), "ce": V("varint", c)})


def ev_match(scrut, arms, env, ctx, on_arm, kind):
    """match over: the frame enum itself, an IpAddr"""
    if scrut.kind == "ip":
        got = {}
        for pat, body in arms:
            if pat[0] != "pctor" or pat[1][-1] not in ("V4", "V6") or pat[1][-2:-1] not in (["IpAddr"], []) and pat[1][-2] != "IpAddr":
                raise Outside("IpAddr match arm outside the fragment")
            env2 = dict(env)
            if pat[2] and pat[2][0][0] == "pbind":
                env2[pat[2][0][1]] = V("ipbits", scrut.term, w=4 if pat[1][-1] == "V4" else 16)
            got[pat[1][-1]] = on_arm(body, env2)
        if set(got) != {"V4", "V6"}:
            raise Outside("IpAddr match must have exactly the arms V4, V6")
        return V(kind, f"(if {scrut.term}.v6 then {got['V6'].term} else {got['V4'].term})")
    if scrut.kind == "enumself":
        sp = scrut.spec
        got = {}
        for pat, body in arms:
            if pat[0] != "pctor" or len(pat[1]) != 2 or pat[1][0] != sp["enum"] or pat[1][1] not in sp["variants"] or not pat[2] or len(pat[2]) != 1:
                raise Outside(f"arm of `match` over {sp['enum']} outside the fragment")
            env2 = dict(env)
            if pat[2][0][0] == "pbind":
                env2[pat[2][0][1]] = scrut.payload(pat[1][1])
            elif pat[2][0][0] != "pwild":
                raise Outside("enum payload pattern")
            if "only" in sp and pat[1][1] != sp["only"]:
                got[pat[1][1]] = None
                continue
            got[pat[1][1]] = on_arm(body, env2)
        if set(got) != set(sp["variants"]):
            raise Outside(f"`match` over {sp['enum']} does not have exactly one arm per variant")
        if "only" in sp:          # ConnectionClose: one generated function per variant
            return got[sp["only"]]
        f, t = [n for n, b in sp["variants"].items() if b == "false"][0], [n for n, b in sp["variants"].items() if b == "true"][0]
        return V(kind, f"(match {sp['flag']} with | false => {got[f].term} | true => {got[t].term})")
    raise Outside(f"`match` on a {scrut.kind}")


def ev_mcall(e, env, ctx):
    _, recv, name, args = e
    # xs.iter().map(|(a, b)| body).sum()
    if name == "sum" and recv[0] == "mcall" and recv[2] == "map" and recv[1][0] == "mcall" and recv[1][2] == "iter":
        xs = ev(recv[1][1], env, ctx)
        clo = recv[3][0]
        if xs.kind == "ranges" and clo[0] == "closure" and len(clo[1]) == 1 and clo[1][0][0] == "ptuple" and all(p[0] == "pbind" for p in clo[1][0][1]) and len(clo[1][0][1]) == 2:
            a, b = (p[1] for p in clo[1][0][1])
            env2 = dict(env)
            env2[a], env2[b] = V("varint", "p.1"), V("varint", "p.2")
            body = ev(clo[2], env2, ctx)
            return V("nat", f"({xs.term}.map fun p => {body.term}).sum")
        raise Outside("iter().map().sum() outside the fragment")
    # `self.remaining_mut()` (the room left in the output buffer): the model writes into an unbounded `Vec`, so the room
    # is "no bound"; it may only be lowered (`.saturating_sub(n)`) and used as the right operand of `.min(..)`
    # (CONNECTION_CLOSE put_frame, fix-C05-close-truncation; the bounded writer is Model/CloseBounded.lean, run C05cb)
    if name == "remaining_mut" and not args and recv == ("path", ["self"]) and "self" not in env:
        return V("room", None)
    r = ev(recv, env, ctx)
    if r.kind == "room" and name == "saturating_sub" and len(args) == 1 and ev(args[0], env, ctx).kind == "nat":
        return r
    if name == "min" and len(args) == 1 and r.kind == "nat" and args[0] != ("mcall", ("path", ["self"]), "remaining_mut", []):
        a = ev(args[0], env, ctx)
        if a.kind == "room":
            ctx.assume.append("`.min(<self.remaining_mut() minus the length field>)`: unbounded buffer (the model's `Vec`), so the minimum is the left operand")
            return r
        raise Outside(f"`.min()` with a {a.kind}")
    if name == "encoding_size" and not args:
        if r.kind in ("varint", "sid"):
            return V("nat", f"varintSize {par(r.term)}")
        if r.kind == "addr":
            return sub_size(ctx, "qbase/src/net.rs", "SocketAddr", "encoding_size", r)
        if r.kind == "struct" and r.sname == "EcnCounts":
            return sub_size(ctx, FR + "ack.rs", "EcnCounts", "encoding_size", r, r"impl EcnCounts \{")
        if r.kind == "prefimg":
            return V("nat", f"{r.term}.length")
        if r.kind == "resettoken":
            txt = fn_body(src_of(ctx.g, "qbase/src/token.rs"), r"impl ResetToken \{", r"pub fn encoding_size\(&self\) -> usize \{", "ResetToken::encoding_size")
            sub = Ctx(ctx.g, ctx.spec, src_of(ctx.g, "qbase/src/token.rs"), "qbase/src/token.rs")
            return V("nat", par(ev(parse_block(txt), {"self": r}, sub).term))
        raise Outside(f"encoding_size() of a {r.kind}")
    if name == "max_encoding_size" and not args and r.kind == "addr":
        return sub_size(ctx, "qbase/src/net.rs", "SocketAddr", "max_encoding_size", r)
    if name == "len" and not args and r.kind in ("bytes", "ranges", "cid"):
        return V("nat", f"{r.term}.length")
    if name in ("len", "remaining") and not args and r.kind == "data":
        return V("nat", f"{r.term}.length")
    if name == "encoding_size" and not args and r.kind == "resettoken":
        txt = fn_body(src_of(ctx.g, "qbase/src/token.rs"), r"impl ResetToken \{", r"pub fn encoding_size\(&self\) -> usize \{", "ResetToken::encoding_size")
        sub = Ctx(ctx.g, ctx.spec, src_of(ctx.g, "qbase/src/token.rs"), "qbase/src/token.rs")
        return V("nat", par(ev(parse_block(txt), {"self": r}, sub).term))
    if name == "as_millis" and not args and r.kind == "duration":
        return V("nat", r.term)
    if name == "as_slice" and not args and r.kind == "resettoken":
        return V("bytes", r.term)
    if name == "into_u64" and r.kind in ("varint", "sid"):
        return V("nat", r.term)
    if name in ("as_ref", "as_slice", "as_bytes") and not args and r.kind != "resettoken":
        return r
    if name == "is_some" and r.kind == "optecn":
        return V("bool", f"{r.term}.isSome")
    if name == "is_empty" and r.kind in ("cid", "bytes"):
        return V("bool", f"{r.term}.isEmpty")
    if name == "ip" and r.kind == "addr":
        return V("ip", r.term)
    if name == "port" and r.kind == "addr":
        return V("port", r.term)
    if name == "octets" and r.kind == "ipbits":
        return V("bytes", f"beBytes {r.w} {r.term}.ip")
    if name == "frame_type" and r.kind in ("struct", "enumself") and getattr(r, "is_self", False):
        return V("ftype", ctx.spec["ftype"])
    if name == "get_type" and r.kind == "struct" and getattr(r, "is_self", False) and "ptype" in ctx.spec:
        return V("ptype", ctx.spec["ptype"])
    if name == "size" and not args and r.kind == "struct" and hasattr(ctx, "size_hook"):
        return ctx.size_hook(r)
    if name in ("unwrap", "expect") and r.kind == "res":
        ctx.pre.append(f"{r.val.term} < 2^62 (else `{name}` panics)")
        return r.val
    if name == "into" and not args:
        if r.kind == "ekind":
            return V("varint", f"natOfErrKind {par(r.term)}")
        if r.kind == "efty":
            return V("varint", f"natOfErrFty {par(r.term)}")
        if r.kind == "ipbits":
            return V("ipnum", r.term, w=r.w)
        raise Outside(f".into() of a {r.kind}")
    if name == "min" and len(args) == 1 and args[0] == ("mcall", ("path", ["self"]), "remaining_mut", []) and r.kind == "nat":
        ctx.assume.append("`.min(self.remaining_mut())`: unbounded buffer (the model's `Vec`), so the minimum is the left operand")
        return r
    if name == "then_some" and r.kind in ("bool", "lenbit") and len(args) == 1:
        return V("opt", None, cond=r.term, val=ev(args[0], env, ctx))
    if name == "map" and r.kind == "opt" and len(args) == 1 and args[0] == ("path", ["VarInt", "encoding_size"]) and r.val.kind == "varint":
        return V("opt", None, cond=r.cond, val=V("nat", f"varintSize {par(r.val.term)}"))
    if name == "unwrap_or_default" and r.kind == "opt" and r.val.kind == "nat":
        return V("nat", f"(if {r.cond} then {r.val.term} else 0)")
    raise Outside(f"method `.{name}()` on a {r.kind}")


def ev_call(e, env, ctx):
    _, f, args = e
    if f[0] != "path":
        raise Outside("call of a non-path")
    p = "::".join(f[1])
    if p == "VarInt::default" and not args:
        return V("varint", "0")
    if p == "VarInt::from_u32" and len(args) == 1:
        return V("varint", num(ev(args[0], env, ctx)))
    if p in ("VarInt::try_from", "VarInt::from_u64", "VarInt::from_u128") and len(args) == 1:
        return V("res", None, val=V("varint", num(ev(args[0], env, ctx))))
    if p == "VarInt::from" and len(args) == 1:
        a = ev(args[0], env, ctx)
        if a.kind == "ftype":
            return V("varint", f"natOfFrameType {par(a.term)}")
        if a.kind == "nattype":
            return V("varint", a.term)
        if a.kind == "ekind":
            return V("varint", f"natOfErrKind {par(a.term)}")
        if a.kind == "efty":
            return V("varint", f"natOfErrFty {par(a.term)}")
        raise Outside(f"VarInt::from of a {a.kind}")
    raise Outside(f"call of `{p}`")


def fn_body(src, impl_re, fn_re, what):
    impl, _ = find_body(src, impl_re, what)
    body, _ = find_body(impl, fn_re, what)
    return body


def sub_size(ctx, rel, ty, fn, selfv, impl_re=None):
    src = src_of(ctx.g, rel)
    body = fn_body(src, impl_re or r"impl (?:super::|crate::frame::)?EncodeSize for " + ty + r" \{", r"fn " + fn + r"\(&self\) -> usize \{", f"{ty}::{fn}")
    sub = Ctx(ctx.g, ctx.spec, src, rel)
    v = ev(parse_block(body), {"self": selfv}, sub)
    ctx.pre += sub.pre
    return V("nat", par(v.term))


# ------------------------------------------------------------------------------------------------
# encoders: statement sequences of put_* calls  ->  list of Bytes terms
def cat(items):
    if not items:
        return "[]"
    out = items[-1]
    for it in reversed(items[:-1]):
        out = f"{it} ++ {par(out)}" if len(items) > 1 else it
    return out


def put(e, env, ctx, selfname):
    """one `self.put_xxx(arg)` call -> [Bytes terms]"""
    _, recv, name, args = e
    if recv != ("path", [selfname]):
        raise Outside("put_* on something other than the buffer")
    if name == "put_packet_type" and len(args) == 1:
        a = ev(args[0], env, ctx)
        if a.kind != "ptype":
            raise Outside("put_packet_type of a non packet type")
        return [f"encPType {par(a.term)}"]
    if name == "put_specific" and len(args) == 1 and hasattr(ctx, "specific_hook"):
        return ctx.specific_hook(ev(args[0], env, ctx))
    if name == "put_frame_type" and len(args) == 1:
        a = ev(args[0], env, ctx)
        if a.kind != "ftype":
            raise Outside("put_frame_type of a non frame type")
        return [f"encType {par(a.term)}"]
    if hasattr(ctx, "put_hook"):
        r = ctx.put_hook(name, [ev(x, env, ctx) for x in args])
        if r is not None:
            return r
    if len(args) != 1:
        raise Outside(f"{name} with {len(args)} arguments")
    a = ev(args[0], env, ctx)
    if name == "put_varint" and a.kind == "varint":
        return [f"encVarint {par(a.term)}"]
    if name == "put_streamid" and a.kind == "sid":
        return [f"encVarint {par(a.term)}"]
    if name == "put_slice" and a.kind == "bytes":
        return [a.term]
    if name == "put_data" and a.kind == "data":
        return [a.term]
    if name == "put_connection_id" and a.kind == "cid":
        return [f"[UInt8.ofNat {a.term}.length]", a.term]
    if name == "put_u32" and a.kind == "u32":
        return [f"beBytes 4 {a.term}"]
    if name == "put_u16" and a.kind == "port":
        return [f"beBytes 2 {a.term}.port"]
    if name in ("put_u32", "put_u128") and a.kind == "ipnum" and a.w == {"put_u32": 4, "put_u128": 16}[name]:
        return [f"beBytes {a.w} {a.term}.ip"]
    if name == "put_socket_addr" and a.kind == "addr":
        src = src_of(ctx.g, "qbase/src/net.rs")
        body = fn_body(src, r"impl<T: BufMut> WriteSocketAddr for T \{", r"fn put_socket_addr\(&mut self, addr: &SocketAddr\) \{", "put_socket_addr")
        sub = Ctx(ctx.g, ctx.spec, src, "qbase/src/net.rs")
        return run(parse_block(body), {"addr": a}, sub, "self")
    raise Outside(f"`{name}` of a {a.kind}")


def run(block, env, ctx, selfname):
    env = dict(env)
    items = []
    stmts = list(block[1]) + ([("expr", block[2])] if block[2] is not None else [])
    for s in stmts:
        if s[0] == "use":
            continue
        if s[0] == "let":
            if s[1][0] != "pbind":
                raise Outside("let pattern in an encoder")
            env[s[1][1]] = ev(s[2], env, ctx)
            continue
        if s[0] == "for":
            pat, xs = s[1], ev(s[2], env, ctx)
            if xs.kind == "ranges" and pat[0] == "ptuple" and len(pat[1]) == 2 and all(p[0] == "pbind" for p in pat[1]):
                env2 = dict(env)
                env2[pat[1][0][1]], env2[pat[1][1][1]] = V("varint", "p.1"), V("varint", "p.2")
                inner = run(s[3], env2, ctx, selfname)
                items.append(f"({xs.term}.flatMap fun p => {cat(inner)})")
                continue
            if xs.kind == "u32list" and pat[0] == "pbind":
                env2 = dict(env)
                env2[pat[1]] = V("u32", "v")
                inner = run(s[3], env2, ctx, selfname)
                items.append(f"({xs.term}.flatMap fun v => {cat(inner)})")
                continue
            raise Outside("for loop outside the fragment")
        if s[0] != "expr":
            raise Outside(f"statement `{s[0]}` in an encoder")
        e = s[1]
        if e[0] == "mcall":
            items += put(e, env, ctx, selfname)
        elif e[0] == "macro" and e[1] == "assert_eq" and len(e[2]) == 2:
            a, b = ev(e[2][0], env, ctx), ev(e[2][1], env, ctx)
            ctx.asserts.append(f"{num(a)} == {num(b)}")
        elif e[0] == "if":
            c = ev(e[1], env, ctx)
            if e[3] is not None or c.kind not in ("bool", "lenbit"):
                raise Outside("if/else in an encoder")
            items.append(f"(if {c.term} then {cat(run(e[2], env, ctx, selfname))} else [])")
        elif e[0] == "iflet":
            pat, scrut = e[1], ev(e[2], env, ctx)
            if scrut.kind == "optecn" and pat[0] == "pctor" and pat[1] == ["Some"] and pat[2][0][0] == "pbind" and e[4] is None:
                env2 = dict(env)
                env2[pat[2][0][1]] = ecn_struct("a", "b", "c")
                items.append(f"(match {scrut.term} with | some (a, b, c) => {cat(run(e[3], env2, ctx, selfname))} | none => [])")
            else:
                raise Outside("if-let in an encoder outside the fragment")
        elif e[0] == "match":
            scrut = ev(e[1], env, ctx)

            def arm(body, env2):
                b = body if body[0] == "block" else ("block", [], body)
                return V("bytes", cat(run(b, env2, ctx, selfname)))
            items.append(ev_match(scrut, e[2], env, ctx, arm, "bytes").term)
        else:
            raise Outside(f"expression statement `{e[0]}` in an encoder")
    return items


# ------------------------------------------------------------------------------------------------
# parsers (continuation-passing: a parser is `lambda inp, cont: lean-term`, cont(value, rest) -> term)
NOM_KINDS = {"Verify": "verify", "TooLarge": "tooLarge", "Alt": "alt", "Eof": "eof"}


def take_mode(ctx, fn_text):
    for txt in (fn_text, ctx.src):
        if re.search(r"bytes::streaming::take|bytes::streaming::\{[^}]*\btake\b", txt):
            return "pTakeS"
        if re.search(r"bytes::complete::take|bytes::complete::\{[^}]*\btake\b", txt):
            return "pTakeC"
    raise Outside("`take` without a recognisable `use nom::bytes::{streaming|complete}::take`")


def bind_pat(pat, v, env):
    if pat[0] == "pbind":
        env[pat[1]] = v
    elif pat[0] == "pwild":
        pass
    elif pat[0] == "ptuple" and v.kind == "tuple" and len(pat[1]) == len(v.items):
        for p, x in zip(pat[1], v.items):
            bind_pat(p, x, env)
    else:
        raise Outside("pattern does not match the parsed value shape")


def make_frame(ctx, fields):
    """struct literal / constructor -> the model's Frame term"""
    sp = ctx.spec
    want = [f for f, _, _, _ in sp["fields"]]
    if sorted(fields) != sorted(want):
        raise Outside(f"constructed {sp['struct']} has fields {sorted(fields)}, expected {sorted(want)}")
    sub = {}
    for f, _, kind, var in sp["fields"]:
        v = fields[f]
        ok = {"varint": ("varint",), "sid": ("sid", "varint"), "bytes": ("bytes",), "cid": ("cid",), "addr": ("addr",),
              "nattype": ("nattype",), "ekind": ("ekind",), "efty": ("efty",), "token": ("bytes",),
              "lenbit": ("lenbit", "bool"), "nat": ("nat", "varint"), "ranges": ("ranges",), "optecn": ("optecn",)}[kind]
        if v.kind not in ok:
            raise Outside(f"field `{f}` built from a {v.kind}")
        sub[var] = v.term
    return V("frame", sp["ctor"](sub))


def ctor_fn(ctx, path):
    """`X::new` / `X::from_slice` used as the mapping function of `map`"""
    sp = ctx.spec
    if path == [sp["struct"], "from_slice"] and len(sp["fields"]) == 1 and sp["fields"][0][2] == "bytes":
        return lambda v: make_frame(ctx, {sp["fields"][0][0]: v})
    if path == [sp["struct"], "new"]:
        m = re.search(r"pub fn new\(([^)]*)\) -> Self \{", ctx.src)
        if not m:
            raise Outside(f"{sp['struct']}::new not found")
        params = [p.split(":")[0].strip() for p in m.group(1).split(",") if p.strip()]
        body, _ = find_body(ctx.src, r"pub fn new\(([^)]*)\) -> Self \{", "new")
        b = parse_block(body)
        if b[1] or b[2] is None or b[2][0] != "struct" or b[2][1] != ["Self"]:
            raise Outside(f"{sp['struct']}::new is not a plain `Self {{ .. }}`")

        def f(v):
            vals = v.items if v.kind == "tuple" else [v]
            if len(vals) != len(params):
                raise Outside("constructor arity")
            env = dict(zip(params, vals))
            return make_frame(ctx, {fld: ev(ex, env, ctx) for fld, ex in b[2][2]})
        return f
    raise Outside(f"mapping function `{'::'.join(path)}`")


def pval(e, env, ctx):
    """value expression inside a parser: struct literal -> frame, else ev"""
    if e[0] == "struct" and e[1] == [ctx.spec["struct"]]:
        return make_frame(ctx, {f: pval(x, env, ctx) for f, x in e[2]})
    if e[0] == "block" and not e[1] and e[2] is not None:
        return pval(e[2], env, ctx)
    if e[0] == "struct" and e[1] == ["EcnCounts"]:
        fs = {f: ev(x, env, ctx) for f, x in e[2]}
        if sorted(fs) != ["ce", "ect0", "ect1"] or any(v.kind != "varint" for v in fs.values()):
            raise Outside("EcnCounts literal")
        return V("ecn3", f"({fs['ect0'].term}, {fs['ect1'].term}, {fs['ce'].term})")
    if e[0] == "call" and e[1][0] == "path" and len(e[1][1]) == 2 and "enum" in ctx.spec and e[1][1][0] == ctx.spec["enum"] and e[1][1][1] in ctx.spec["variants"] and "only" not in ctx.spec:
        return V("enumval", None, variant=e[1][1][1], val=ev(e[2][0], env, ctx))
    if e[0] == "match" and e[1][0] == "path" and e[1][1] == ["dir"] and "enum" in ctx.spec:
        got = {}
        for pat, body in e[2]:
            if pat[0] != "pctor" or pat[1][0] != "Dir" or pat[2] is not None:
                raise Outside("match dir arm")
            x = pval(body, env, ctx)
            if x.kind != "enumval":
                raise Outside("match dir arm value")
            got[pat[1][1]] = x
        sp = ctx.spec
        if set(got) != {"Bi", "Uni"} or got["Bi"].variant != "Bi" or got["Uni"].variant != "Uni":
            raise Outside("`match dir` does not map Bi -> Bi, Uni -> Uni")
        if got["Bi"].val.term != got["Uni"].val.term:
            raise Outside("`match dir` arms carry different values")
        return V("frame", sp["ctor"]({sp["payload"][1]: got["Bi"].val.term}))
    if e[0] == "call" and e[1] == ("path", ["Cow", "Owned"]) and len(e[2]) == 1:
        return pval(e[2][0], env, ctx)
    return ev(e, env, ctx)


def wrapres(ctx, t):
    return ctx.reswrap(t) if hasattr(ctx, "reswrap") else t


def comb(e, env, ctx, fn_text):
    """parser-valued expression -> CPS function"""
    if e[0] == "block" and not e[1] and e[2] is not None:
        return comb(e[2], env, ctx, fn_text)
    if e[0] == "path":
        p = "::".join(e[1])
        prim = {"be_varint": ("pVarint", "varint"), "be_streamid": ("pVarint", "sid"), "be_connection_id": ("pCid", "cid"),
                "be_reset_token": ("pTakeC resetTokenSize", "bytes")}
        if p in prim:
            lp, kind = prim[p]

            def k(inp, cont, lp=lp, kind=kind):
                x, r = ctx.fresh("v"), ctx.fresh("r")
                return f"({wrapres(ctx, f'{lp} {inp}')}).bind fun {x} {r} =>\n    {cont(V(kind, x), r)}"
            return k
        if p == "be_ecn_counts":
            src = src_of(ctx.g, FR + "ack.rs")
            body, _ = find_body(src, r"fn be_ecn_counts\(input: &\[u8\]\) -> nom::IResult<&\[u8\], EcnCounts> \{", "be_ecn_counts")
            b = parse_block(body)
            if b[1] or b[2] is None or b[2][0] != "mcall" or b[2][2] != "parse" or b[2][3] != [("path", ["input"])]:
                raise Outside("be_ecn_counts is not `<parser>.parse(input)`")
            return comb(b[2][1], env, ctx, body)
        raise Outside(f"parser `{p}`")
    if e[0] == "tuple" or (e[0] == "call" and e[1] == ("path", ["pair"])):
        parts = [comb(x, env, ctx, fn_text) for x in (e[1] if e[0] == "tuple" else e[2])]

        def k(inp, cont):
            def go(i, inp, acc):
                if i == len(parts):
                    return cont(V("tuple", None, items=acc), inp)
                return parts[i](inp, lambda v, r: go(i + 1, r, acc + [v]))
            return go(0, inp, [])
        return k
    if e[0] == "call" and e[1] == ("path", ["take"]) and len(e[2]) == 1:
        n = num(ev(e[2][0], env, ctx))
        mode = take_mode(ctx, fn_text)

        def k(inp, cont):
            x, r = ctx.fresh("v"), ctx.fresh("r")
            return f"({mode} {par(n)} {inp}).bind fun {x} {r} =>\n    {cont(V('bytes', x), r)}"
        return k
    if e[0] == "call" and e[1] == ("path", ["length_data"]) and e[2] == [("path", ["be_varint"])]:
        # nom::multi::length_data(be_varint): the count, then that many bytes (streaming: Incomplete when short)
        def k(inp, cont):
            n, r1, x, r2 = ctx.fresh("v"), ctx.fresh("r"), ctx.fresh("v"), ctx.fresh("r")
            return (f"({wrapres(ctx, f'pVarint {inp}')}).bind fun {n} {r1} =>\n    ({wrapres(ctx, f'pTakeS {n} {r1}')}).bind fun {x} {r2} =>\n    {cont(V('bytes', x), r2)}")
        return k
    if e[0] == "call" and e[1] == ("path", ["map"]) and len(e[2]) == 2 and hasattr(ctx, "mapfn"):
        inner = comb(e[2][0], env, ctx, fn_text)
        fn = ctx.mapfn(e[2][1])
        return lambda inp, cont: inner(inp, lambda v, r: cont(fn(v), r))
    if e[0] == "call" and e[1] == ("path", ["map"]) and len(e[2]) == 2:
        inner = comb(e[2][0], env, ctx, fn_text)
        f = e[2][1]
        if f[0] == "path":
            fn = ctor_fn(ctx, f[1])
        elif f[0] == "closure" and len(f[1]) == 1:
            def fn(v, f=f):
                env2 = dict(env)
                bind_pat(f[1][0], v, env2)
                return pval(f[2], env2, ctx)
        else:
            raise Outside("mapping function of `map`")
        return lambda inp, cont: inner(inp, lambda v, r: cont(fn(v), r))
    if e[0] == "call" and e[1] == ("path", ["flat_map"]) and len(e[2]) == 2 and e[2][1][0] == "closure" and len(e[2][1][1]) == 1:
        inner = comb(e[2][0], env, ctx, fn_text)
        clo = e[2][1]

        def k(inp, cont):
            def after(v, r):
                env2 = dict(env)
                bind_pat(clo[1][0], v, env2)
                return comb(clo[2], env2, ctx, fn_text)(r, cont)
            return inner(inp, after)
        return k
    raise Outside(f"parser expression `{e[0]}` outside the fragment")


def nom_err(e):
    """`Err(nom::Err::Error(make_error(_, ErrorKind::K)))` / `nom::Err::Error(Error::new(_, K))` -> model error"""
    if e[0] == "block" and not e[1] and e[2] is not None:
        e = e[2]
    if e[0] == "call" and e[1] == ("path", ["Err"]) and len(e[2]) == 1:
        e = e[2][0]
    if e[0] == "call" and e[1][0] == "path" and e[1][1][-2:] == ["Err", "Error"] and len(e[2]) == 1:
        inner = e[2][0]
        if inner[0] == "call" and inner[1][0] == "path" and inner[1][1][-1] in ("make_error", "new") and len(inner[2]) == 2:
            kp = inner[2][1]
            if kp[0] == "path" and kp[1][-2] == "ErrorKind" and kp[1][-1] in NOM_KINDS:
                return f".err (.nom .{NOM_KINDS[kp[1][-1]]})"
    raise Outside("error expression outside the fragment")


def map_err_kind(e):
    """`X.map_err(|_| nom::Err::Error(..Kind))` -> (X, model error)"""
    if e[0] == "mcall" and e[2] == "map_err" and len(e[3]) == 1 and e[3][0][0] == "closure":
        return e[1], nom_err(e[3][0][2])
    return None


def parse_app(e, env, ctx, fn_text, cur):
    """`P(input)` / `P.parse(input)` / `be_socket_addr(input, family)` -> CPS parser applied to the CURRENT remainder"""
    def check_in(a):
        if a != ("path", [cur["rust"]]):
            raise Outside(f"parser applied to `{a}` while the current remainder is `{cur['rust']}`")
    if e[0] == "mcall" and e[2] == "parse" and len(e[3]) == 1:
        check_in(e[3][0])
        return comb(e[1], env, ctx, fn_text)
    if e[0] == "call" and e[1] == ("path", ["be_socket_addr"]) and len(e[2]) == 2:
        check_in(e[2][0])
        fam = ev(e[2][1], env, ctx)
        if fam.kind != "family":
            raise Outside("be_socket_addr family argument")

        def k(inp, cont):
            x, r = ctx.fresh("v"), ctx.fresh("r")
            return f"(pSockAddr {fam.term} {inp}).bind fun {x} {r} =>\n    {cont(V('addr', x), r)}"
        return k
    if e[0] == "call" and len(e[2]) == 1:
        check_in(e[2][0])
        return comb(e[1], env, ctx, fn_text)
    raise Outside("parser application outside the fragment")


def res_block(block, env, ctx, fn_text, cur, kinds):
    """a block that evaluates to `(remainder, value)` (possibly failing with `?`) -> Lean `Res _` term"""
    def tailfn(e, env, ctx, fn_text, cur):
        if e is not None and e[0] == "try":
            app = parse_app(e[1], env, ctx, fn_text, cur)

            def cont(v, r):
                kinds.append(v.kind)
                return f".ok {par(v.term)} {r}"
            return app(cur["lean"], cont)
        if e is not None and e[0] == "tuple" and len(e[1]) == 2:
            if e[1][0] != ("path", [cur["rust"]]):
                raise Outside(f"block yields remainder `{e[1][0]}` but the current remainder is `{cur['rust']}`")
            v = ev(e[1][1], env, ctx)
            kinds.append(v.kind)
            return f".ok {par(num(v))} {cur['lean']}"
        raise Outside("block value outside the fragment (expected `P(rest)?` or `(rest, value)`)")
    return dec_seq(block[1], block[2], env, ctx, fn_text, cur, tailfn)


def dec_seq(stmts, tail, env, ctx, fn_text, cur, tailfn=None):
    """let-sequence parser body -> Lean term of type `Res Frame`"""
    env = dict(env)
    env[cur["rust"]] = V("data", cur["lean"])
    if not stmts:
        return (tailfn or dec_tail)(tail, env, ctx, fn_text, cur)
    s, rest = stmts[0], stmts[1:]
    if s[0] == "use":
        return dec_seq(rest, tail, env, ctx, fn_text, cur, tailfn)
    # counted repetition:  let mut xs = Vec::new(); let mut c = N; while c > 0 { let (i, x) = P(rem)?; xs.push(x); c -= 1; rem = i; }
    if (len(stmts) >= 3 and s[0] == "let" and s[1][0] == "pbind" and s[2] == ("call", ("path", ["Vec", "new"]), [])
            and stmts[1][0] == "let" and stmts[1][1][0] == "pbind" and stmts[2][0] == "while"):
        xs, cnt, w = s[1][1], stmts[1][1][1], stmts[2]
        n = num(ev(stmts[1][2], env, ctx))
        body = w[2]
        rem = cur["rust"]
        ok = (w[1] == ("bin", ">", ("path", [cnt]), ("int", 0)) and body[2] is None and len(body[1]) == 4
              and body[1][0][0] == "let" and body[1][0][1][0] == "ptuple" and len(body[1][0][1][1]) == 2 and body[1][0][1][1][0][0] == "pbind"
              and body[1][0][2][0] == "try"
              and body[1][1][0] == "expr" and body[1][1][1][0] == "mcall" and body[1][1][1][1] == ("path", [xs]) and body[1][1][1][2] == "push" and len(body[1][1][1][3]) == 1
              and body[1][2] == ("assign", ("path", [cnt]), "-=", ("int", 1))
              and body[1][3] == ("assign", ("path", [rem]), "=", ("path", [body[1][0][1][1][0][1]])))
        if not ok:
            raise Outside("`while` loop outside the counted-repetition idiom")
        app = parse_app(body[1][0][2][1], env, ctx, fn_text, {"rust": rem, "lean": "bs"})
        loop = f"dec_{ctx.spec['name']}_loop"

        def cont(v, r):
            env2 = dict(env)
            bind_pat(body[1][0][1][1][1], v, env2)
            item = body[1][1][1][3][0]
            if item[0] != "tuple" or len(item[1]) != 2:
                raise Outside("pushed element is not a pair")
            a, b = (num(ev(x, env2, ctx)) for x in item[1])
            return f"({loop} n {r}).bind fun rest r =>\n    .ok (({a}, {b}) :: rest) r"
        ctx.aux += [f"/-- the counted `while` loop of `{ctx.spec['parser']}` -/", f"def {loop} : Nat → P (List (Nat × Nat))",
                    "  | 0 => fun bs => .ok [] bs", "  | n + 1 => fun bs =>", "    " + app("bs", cont), ""]
        x, r = ctx.fresh("v"), ctx.fresh("r")
        env2 = dict(env)
        env2[xs] = V("ranges", x)
        k = dec_seq(stmts[3:], tail, env2, ctx, fn_text, {"rust": rem, "lean": r}, tailfn)
        return f"({loop} {par(n)} {cur['lean']}).bind fun {x} {r} =>\n    {k}"
    # optional trailing part:  let x = if c { let (i, y) = P(rem)?; rem = i; Some(y) } else { None };
    if (s[0] == "let" and s[1][0] == "pbind" and s[2][0] == "if" and s[2][3] is not None and s[2][3] == ("block", [], ("path", ["None"]))):
        c = ev(s[2][1], env, ctx)
        th = s[2][2]
        rem = cur["rust"]
        ok = (c.kind in ("bool", "lenbit") and len(th[1]) == 2 and th[1][0][0] == "let" and th[1][0][1][0] == "ptuple" and len(th[1][0][1][1]) == 2
              and th[1][0][1][1][0][0] == "pbind" and th[1][0][1][1][1][0] == "pbind" and th[1][0][2][0] == "try"
              and th[1][1] == ("assign", ("path", [rem]), "=", ("path", [th[1][0][1][1][0][1]]))
              and th[2] == ("call", ("path", ["Some"]), [("path", [th[1][0][1][1][1][1]])]))
        if not ok:
            raise Outside("optional trailing parser outside the `if c { let (i, y) = P(rem)?; rem = i; Some(y) } else { None }` idiom")
        app = parse_app(th[1][0][2][1], env, ctx, fn_text, cur)

        def cont(v, r):
            if v.kind != "ecn3":
                raise Outside("optional part is not an EcnCounts")
            env2 = dict(env)
            env2[s[1][1]] = V("optecn", f"some {par(v.term)}")
            return dec_seq(rest, tail, env2, ctx, fn_text, {"rust": rem, "lean": r}, tailfn)
        env3 = dict(env)
        env3[s[1][1]] = V("optecn", "none")
        return f"if {c.term} then\n    {app(cur['lean'], cont)}\n    else {dec_seq(rest, tail, env3, ctx, fn_text, cur, tailfn)}"
    if s[0] == "let" and s[1][0] == "ptuple" and len(s[1][1]) == 2 and s[1][1][0][0] == "pbind" and s[2][0] == "if" and s[2][3] is not None:
        pat, e = s[1], s[2]
        c = ev(e[1], env, ctx)
        if c.kind not in ("bool", "lenbit"):
            raise Outside("condition of a parser `if`")
        kinds = []
        a = res_block(e[2], env, ctx, fn_text, cur, kinds)
        b = res_block(e[3], env, ctx, fn_text, cur, kinds)
        if not set(kinds) <= {"varint", "nat"}:
            raise Outside(f"branches of a parser `if` yield {kinds}")
        x, r = ctx.fresh("v"), ctx.fresh("r")
        env2 = dict(env)
        bind_pat(pat[1][1], V("nat" if "nat" in kinds else "varint", x), env2)
        k = dec_seq(rest, tail, env2, ctx, fn_text, {"rust": pat[1][0][1], "lean": r}, tailfn)
        return f"(if {c.term} then {par(a)} else {par(b)}).bind fun {x} {r} =>\n    {k}"
    if s[0] == "let" and s[1][0] == "pbind" and s[2][0] == "match" and s[2][1][0] == "call" and s[2][1][1] == ("path", ["FrameType", "try_from"]):
        arg_e = s[2][1][2][0]
        arg = ev(arg_e, env, ctx)
        arms = s[2][2]
        ok = (len(arms) == 2 and arms[0][0] == ("pctor", ["Ok"], [("pbind", arms[0][0][2][0][1])] if arms[0][0][0] == "pctor" and arms[0][0][2] else None)
              and arms[0][1] == ("call", ("path", ["ErrorFrameType", "V1"]), [("path", [arms[0][0][2][0][1]])])
              and arms[1][0] == ("pctor", ["Err"], [("pwild",)])
              and arms[1][1] == ("call", ("path", ["ErrorFrameType", "Ext"]), [arg_e]))
        if not ok or arg.kind != "varint":
            raise Outside("`match FrameType::try_from(..)` outside the fragment")
        env2 = dict(env)
        env2[s[1][1]] = V("efty", f"(match frameTypeOfNat {arg.term} with | some t => ErrFty.v1 t | none => ErrFty.ext {arg.term})")
        return dec_seq(rest, tail, env2, ctx, fn_text, cur, tailfn)
    if s[0] == "let":
        pat, e = s[1], s[2]
        if e[0] == "try":
            inner = e[1]
            me = map_err_kind(inner)
            # let x = T::try_from(v).map_err(..)?
            if me and me[0][0] == "call" and me[0][1][0] == "path" and me[0][1][1][-1] == "try_from" and pat[0] == "pbind":
                ty, arg = me[0][1][1][0], ev(me[0][2][0], env, ctx)
                env2 = dict(env)
                if ty == "NatType" and arg.kind == "varint":
                    env2[pat[1]] = V("nattype", f"{arg.term} % 256")
                    k = dec_seq(rest, tail, env2, ctx, fn_text, cur, tailfn)
                    return f"if natTypeOk {arg.term} then {k} else {me[1]}"
                if ty == "ErrorKind" and arg.kind == "varint":
                    kv = ctx.fresh("k")
                    env2[pat[1]] = V("ekind", kv)
                    k = dec_seq(rest, tail, env2, ctx, fn_text, cur, tailfn)
                    return f"match errKindOfNat {arg.term} with\n    | none => {me[1]}\n    | some {kv} =>\n    {k}"
                raise Outside(f"{ty}::try_from(..).map_err(..)? outside the fragment")
            if pat[0] == "ptuple" and len(pat[1]) == 2 and pat[1][0][0] == "pbind":
                if me:      # P(input).map_err(|_| E)?  : every nom error (Incomplete too) becomes E
                    if me[0] != ("call", ("path", ["be_varint"]), [("path", [cur["rust"]])]):
                        raise Outside("map_err on a parser other than `be_varint(<current remainder>)`")
                    x, r = ctx.fresh("v"), ctx.fresh("r")
                    env2 = dict(env)
                    bind_pat(pat[1][1], V("varint", x), env2)
                    k = dec_seq(rest, tail, env2, ctx, fn_text, {"rust": pat[1][0][1], "lean": r}, tailfn)
                    return f"(match pVarint {cur['lean']} with | .err _ => Res.err {me[1][5:]} | x => x).bind fun {x} {r} =>\n    {k}"
                app = parse_app(inner, env, ctx, fn_text, cur)

                def cont(v, r):
                    env2 = dict(env)
                    bind_pat(pat[1][1], v, env2)
                    return dec_seq(rest, tail, env2, ctx, fn_text, {"rust": pat[1][0][1], "lean": r}, tailfn)
                return app(cur["lean"], cont)
            raise Outside("`let .. = ..?` outside the fragment")
        if pat[0] == "pbind":
            env2 = dict(env)
            if e == ("mcall", ("call", ("path", ["String", "from_utf8_lossy"]), [e[1][2][0]] if e[0] == "mcall" and e[1][0] == "call" and len(e[1][2]) == 1 else []), "into_owned", []):
                b = ev(e[1][2][0], env, ctx)
                if b.kind != "bytes":
                    raise Outside("from_utf8_lossy of a non-slice")
                env2[pat[1]] = V("bytes", f"utf8Lossy {par(b.term)}")
            else:
                env2[pat[1]] = ev(e, env, ctx)
            return dec_seq(rest, tail, env2, ctx, fn_text, cur, tailfn)
        raise Outside("let statement outside the parser fragment")
    if s[0] == "expr" and s[1][0] == "if" and s[1][3] is None:
        c = ev(s[1][1], env, ctx)
        blk = s[1][2]
        if c.kind == "bool" and len(blk[1]) == 1 and blk[2] is None and blk[1][0][0] == "expr" and blk[1][0][1][0] == "ret":
            err = nom_err(blk[1][0][1][1])
            return f"if {c.term} then {err} else\n    {dec_seq(rest, tail, env, ctx, fn_text, cur, tailfn)}"
        if c.kind == "bool" and not blk[1] and blk[2] is not None and blk[2][0] == "ret":
            err = nom_err(blk[2][1])
            return f"if {c.term} then {err} else\n    {dec_seq(rest, tail, env, ctx, fn_text, cur, tailfn)}"
        raise Outside("`if` statement in a parser outside the fragment")
    raise Outside(f"statement `{s[0]}` in a parser outside the fragment")


def dec_tail(e, env, ctx, fn_text, cur):
    if e is None:
        raise Outside("parser without a result expression")
    if e[0] == "call" and e[1] == ("path", ["Ok"]) and len(e[2]) == 1 and e[2][0][0] == "tuple" and len(e[2][0][1]) == 2:
        rem, val = e[2][0][1]
        if rem != ("path", [cur["rust"]]):
            raise Outside(f"parser returns remainder `{rem}` but the current remainder is `{cur['rust']}`")
        v = pval(val, env, ctx)
        if v.kind == "path_unit":
            v = make_frame(ctx, {})
        if v.kind != "frame":
            raise Outside(f"parser result is a {v.kind}")
        return f".ok {par(v.term)} {cur['lean']}"
    if e[0] == "if" and e[3] is not None:
        c = ev(e[1], env, ctx)
        a = dec_seq(e[2][1], e[2][2], env, ctx, fn_text, cur) if not is_err(e[2]) else nom_err(e[2][2])
        b = dec_seq(e[3][1], e[3][2], env, ctx, fn_text, cur) if not is_err(e[3]) else nom_err(e[3][2])
        return f"if {c.term} then {a} else {b}"
    if e[0] == "mcall" and e[2] == "parse":
        app = parse_app(e, env, ctx, fn_text, cur)

        def cont(v, r):
            if v.kind != "frame":
                raise Outside(f"parser result is a {v.kind}")
            return f".ok {par(v.term)} {r}"
        return app(cur["lean"], cont)
    raise Outside(f"parser result expression `{e[0]}` outside the fragment")


def is_err(block):
    return not block[1] and block[2] is not None and block[2][0] == "call" and block[2][1] == ("path", ["Err"])


# ------------------------------------------------------------------------------------------------
# frame specifications: binding of Rust fields to the model's constructor arguments
def F(name, file, struct, fields, ctor, ftype, parser=None, put="put_frame", **kw):
    d = dict(name=name, file=file, struct=struct, fields=fields, ctor=ctor, ftype=ftype, parser=parser, put=put)
    d.update(kw)
    return d


VI, SID, BY = "VarInt", "StreamId", "bytes"
SPECS = [
    F("padding", "padding.rs", "PaddingFrame", [], lambda s: "Frame.padding", ".padding", "be_padding_frame"),
    F("ping", "ping.rs", "PingFrame", [], lambda s: "Frame.ping", ".ping", "be_ping_frame"),
    F("handshake_done", "handshake_done.rs", "HandshakeDoneFrame", [], lambda s: "Frame.handshakeDone", ".handshakeDone", "be_handshake_done_frame"),
    F("max_data", "max_data.rs", "MaxDataFrame", [("max_data", VI, "varint", "n")], lambda s: f"Frame.maxData {par(s['n'])}", ".maxData", "be_max_data_frame"),
    F("data_blocked", "data_blocked.rs", "DataBlockedFrame", [("limit", VI, "varint", "n")], lambda s: f"Frame.dataBlocked {par(s['n'])}", ".dataBlocked", "be_data_blocked_frame"),
    F("retire_connection_id", "retire_connection_id.rs", "RetireConnectionIdFrame", [("sequence", VI, "varint", "n")], lambda s: f"Frame.retireConnectionId {par(s['n'])}", ".retireConnectionId", "be_retire_connection_id_frame"),
    F("reset_stream", "reset_stream.rs", "ResetStreamFrame", [("stream_id", SID, "sid", "sid"), ("app_error_code", VI, "varint", "code"), ("final_size", VI, "varint", "fs")],
      lambda s: f"Frame.streamCtl (.resetStream {par(s['sid'])} {par(s['code'])} {par(s['fs'])})", ".resetStream", "be_reset_stream_frame"),
    F("stop_sending", "stop_sending.rs", "StopSendingFrame", [("stream_id", SID, "sid", "sid"), ("app_err_code", VI, "varint", "code")],
      lambda s: f"Frame.streamCtl (.stopSending {par(s['sid'])} {par(s['code'])})", ".stopSending", "be_stop_sending_frame"),
    F("max_stream_data", "max_stream_data.rs", "MaxStreamDataFrame", [("stream_id", SID, "sid", "sid"), ("max_stream_data", VI, "varint", "n")],
      lambda s: f"Frame.streamCtl (.maxStreamData {par(s['sid'])} {par(s['n'])})", ".maxStreamData", "be_max_stream_data_frame"),
    F("stream_data_blocked", "stream_data_blocked.rs", "StreamDataBlockedFrame", [("stream_id", SID, "sid", "sid"), ("maximum_stream_data", VI, "varint", "n")],
      lambda s: f"Frame.streamCtl (.streamDataBlocked {par(s['sid'])} {par(s['n'])})", ".streamDataBlocked", "be_stream_data_blocked_frame"),
    F("max_streams", "max_streams.rs", "MaxStreamsFrame", [], lambda s: f"Frame.streamCtl (.maxStreams uni {par(s['n'])})", ".maxStreams uni", "max_streams_frame_with_dir",
      enum="MaxStreamsFrame", variants={"Bi": "false", "Uni": "true"}, flag="uni", payload=("varint", "n"), outer=[("dir", V("dir", "uni"), "(uni : Bool)")]),
    F("streams_blocked", "streams_blocked.rs", "StreamsBlockedFrame", [], lambda s: f"Frame.streamCtl (.streamsBlocked uni {par(s['n'])})", ".streamsBlocked uni", "streams_blocked_frame_with_dir",
      enum="StreamsBlockedFrame", variants={"Bi": "false", "Uni": "true"}, flag="uni", payload=("varint", "n"), outer=[("dir", V("dir", "uni"), "(uni : Bool)")]),
    F("new_connection_id", "new_connection_id.rs", "NewConnectionIdFrame",
      [("sequence", VI, "varint", "seq"), ("retire_prior_to", VI, "varint", "rpt"), ("id", "ConnectionId", "cid", "cid"), ("reset_token", "ResetToken", "token", "token")],
      lambda s: f"Frame.newConnectionId {par(s['seq'])} {par(s['rpt'])} {par(s['cid'])} {par(s['token'])}", ".newConnectionId", "be_new_connection_id_frame"),
    F("path_challenge", "path_challenge.rs", "PathChallengeFrame", [("data", "[u8; 8]", "bytes", "d")], lambda s: f"Frame.pathChallenge {par(s['d'])}", ".pathChallenge", "be_path_challenge_frame"),
    F("path_response", "path_response.rs", "PathResponseFrame", [("data", "[u8; 8]", "bytes", "d")], lambda s: f"Frame.pathResponse {par(s['d'])}", ".pathResponse", "be_path_response_frame"),
    F("new_token", "new_token.rs", "NewTokenFrame", [("token", "Vec<u8>", "bytes", "token")], lambda s: f"Frame.newToken {par(s['token'])}", ".newToken", "be_new_token_frame"),
    F("remove_address", "remove_address.rs", "RemoveAddressFrame", [("seq_num", VI, "varint", "seq")], lambda s: f"Frame.removeAddress {par(s['seq'])}", ".removeAddress", "be_remove_address_frame"),
    F("punch_hello", "punch_hello.rs", "PunchHelloFrame", [("local_seq", VI, "varint", "a"), ("remote_seq", VI, "varint", "b"), ("probe_id", VI, "varint", "c")],
      lambda s: f"Frame.punchHello {par(s['a'])} {par(s['b'])} {par(s['c'])}", ".punchHello", "be_punch_hello_frame"),
    F("punch_done", "punch_done.rs", "PunchDoneFrame", [("local_seq", VI, "varint", "a"), ("remote_seq", VI, "varint", "b"), ("probe_id", VI, "varint", "c")],
      lambda s: f"Frame.punchDone {par(s['a'])} {par(s['b'])} {par(s['c'])}", ".punchDone", "be_punch_done_frame"),
    F("add_address", "add_address.rs", "AddAddressFrame", [("address", "SocketAddr", "addr", "addr"), ("seq_num", VI, "varint", "seq"), ("tire", VI, "varint", "tire"), ("nat_type", "NatType", "nattype", "nat")],
      lambda s: f"Frame.addAddress {par(s['seq'])} {par(s['addr'])} {par(s['tire'])} {par(s['nat'])}", ".addAddress addr.v6", "be_add_address_frame",
      outer=[("family", V("family", "v6"), "(v6 : Bool)")], order=["seq", "addr", "tire", "nat"]),
    F("punch_me_now", "punch_me_now.rs", "PunchMeNowFrame", [("local_seq", VI, "varint", "l"), ("remote_seq", VI, "varint", "r"), ("address", "SocketAddr", "addr", "addr"), ("tire", VI, "varint", "tire"), ("nat_type", "NatType", "nattype", "nat")],
      lambda s: f"Frame.punchMeNow {par(s['l'])} {par(s['r'])} {par(s['addr'])} {par(s['tire'])} {par(s['nat'])}", ".punchMeNow addr.v6", "be_punch_me_now_frame", outer=[("family", V("family", "v6"), "(v6 : Bool)")]),
    F("crypto", "crypto.rs", "CryptoFrame", [("offset", VI, "varint", "off"), ("length", VI, "varint", "len")], lambda s: f"({s['off']}, {s['len']})", ".crypto", "be_crypto_frame", put="put_data_frame", data=True, dec_ty="Nat × Nat"),
    F("datagram", "datagram.rs", "DatagramFrame", [("encode_len", "bool", "lenbit", "withLen"), ("len", VI, "varint", "len")], lambda s: f"({s['withLen']}, {s['len']})", ".datagram withLen", "datagram_frame_with_flag", put="put_data_frame", data=True, dec_ty="Bool × Nat",
      outer=[("flag", V("nat", "(if withLen then 1 else 0)"), "(withLen : Bool)")]),
    F("stream", "stream.rs", "StreamFrame", [("id", SID, "sid", "sid"), ("offset", VI, "varint", "off"), ("length", "usize", "nat", "len"), ("len_bit", "Len", "lenbit", "lenBit"), ("fin_bit", "Fin", "lenbit", "fin")],
      lambda s: f"({s['sid']}, {s['off']}, {s['len']}, {s['lenBit']}, {s['fin']})", ".stream (off != 0) lenBit fin", "stream_frame_with_flag", put="put_data_frame", data=True,
      dec_ty="Nat × Nat × Nat × Bool × Bool",
      outer=[("offset", V("lenbit", "offBit"), "(offBit : Bool)"), ("len", V("lenbit", "lenBit"), "(lenBit : Bool)"), ("fin", V("lenbit", "fin"), "(fin : Bool)")]),
    F("ack", "ack.rs", "AckFrame", [("largest", VI, "varint", "largest"), ("delay", VI, "varint", "delay"), ("first_range", VI, "varint", "first"), ("ranges", "Vec<(VarInt, VarInt)>", "ranges", "ranges"), ("ecn", "Option<EcnCounts>", "optecn", "ecn")],
      lambda s: f"Frame.ack {par(s['largest'])} {par(s['delay'])} {par(s['first'])} {par(s['ranges'])} {par(s['ecn'])}", ".ack ecn.isSome", "ack_frame_with_ecn",
      outer=[("ecn", V("lenbit", "ecn"), "(ecn : Bool)")]),
    F("close_app", "connection_close.rs", "AppCloseFrame", [("error_code", VI, "varint", "code"), ("reason", "Cow<'static, str>", "bytes", "reason")],
      lambda s: f"Frame.closeApp {par(s['code'])} {par(s['reason'])}", ".connectionClose true", "be_app_close_frame",
      enum="ConnectionCloseFrame", variants={"App": None, "Quic": None}, only="App"),
    F("close_quic", "connection_close.rs", "QuicCloseFrame", [("error_kind", "ErrorKind", "ekind", "kind"), ("frame_type", "ErrorFrameType", "efty", "fty"), ("reason", "Cow<'static, str>", "bytes", "reason")],
      lambda s: f"Frame.closeQuic {par(s['kind'])} {par(s['fty'])} {par(s['reason'])}", ".connectionClose false", "be_quic_close_frame",
      enum="ConnectionCloseFrame", variants={"App": None, "Quic": None}, only="Quic"),
]
# what is deliberately NOT a target (stays tied by the differential run only), with the reason
NOT_TARGETS = {
}
LEAN_TY = {"varint": "Nat", "sid": "Nat", "bytes": "Bytes", "cid": "Bytes", "token": "Bytes", "addr": "SockAddr", "nattype": "Nat",
           "lenbit": "Bool", "nat": "Nat", "ranges": "List (Nat × Nat)", "optecn": "Option (Nat × Nat × Nat)", "ekind": "EKind", "efty": "ErrFty"}


def self_value(sp, who="self"):
    fields = {f: V(kind if kind != "token" else "bytes", var) for f, _, kind, var in sp["fields"]}
    st = V("struct", sname=sp["struct"], fields=fields, is_self=True)
    if "enum" in sp:
        if "only" in sp:
            return V("enumself", spec=sp, is_self=True, payload=lambda variant: V("struct", sname=sp["struct"], fields=fields))
        return V("enumself", spec=sp, is_self=True, payload=lambda variant: V(sp["payload"][0], sp["payload"][1]))
    return st


def lean_args(sp, extra=()):
    out = []
    if "enum" in sp and "only" not in sp:
        out += [(sp["flag"], "Bool"), (sp["payload"][1], LEAN_TY[sp["payload"][0]])]
    byvar = {var: LEAN_TY[kind] for _, _, kind, var in sp["fields"]}
    order = sp.get("order") or [var for _, _, _, var in sp["fields"]]
    out += [(v, byvar[v]) for v in order]
    out += list(extra)
    return out


def check_struct(ctx, sp):
    if "enum" in sp and "only" not in sp:
        body, _ = find_body(ctx.src, r"pub enum " + sp["enum"] + r" \{", f"enum {sp['enum']}")
        got = [x.strip() for x in body.split(",") if x.strip()]
        want = [f"{v}(VarInt)" for v in sp["variants"]]
        if got != want:
            raise Outside(f"enum {sp['enum']} is {got}, the binding expects {want}")
        return
    got = struct_fields(ctx.src, sp["struct"])
    want = [(f, t) for f, t, _, _ in sp["fields"]]
    if got != want:
        raise Outside(f"struct {sp['struct']} has fields {got}, the binding expects {want}")


def generate(g):
    from xlate import lean_header
    for rel, rx in GUARDS:
        if not re.search(rx, src_of(g, rel), re.S):
            g.untranslated.append(f"helper body guard failed in {rel}: /{rx[:60]}…/")
    L = lean_header("GmQuic.Gen.FrameCodec")
    L[1:1] = ["import GmQuic.Model.Frame"]
    L += ["set_option linter.unusedVariables false", "open GmQuic.Wire GmQuic.Codec GmQuic.Gen", ""]
    cover = {}      # frame -> {size,max,enc,dec: status}
    items = []
    for sp in SPECS:
        rel = FR + sp["file"]
        src = src_of(g, rel)
        name = sp["name"]
        cov = cover.setdefault(name, {})
        args = lean_args(sp)
        sig = " ".join(f"({v} : {t})" for v, t in args)
        base = Ctx(g, sp, src, rel)
        try:
            check_struct(base, sp)
        except Outside as ex:
            g.untranslated.append(f"{name}: {ex}")
            continue
        implty = sp.get("enum", sp["struct"])
        # ---- sizes
        for fn, pre in (("encoding_size", "size"), ("max_encoding_size", "max_size")):
            ctx = Ctx(g, sp, src, rel)
            try:
                impl, _ = find_body(src, r"impl (?:super::)?EncodeSize for " + implty + r" \{", f"impl EncodeSize for {implty}")
                if re.search(r"fn " + fn + r"\(&self\)", impl):
                    body, _ = find_body(impl, r"fn " + fn + r"\(&self\) -> usize \{", fn)
                    origin = rel
                else:       # trait default (frame.rs), guarded above
                    body, origin = "1", "qbase/src/frame.rs (trait default)"
                b = parse_block(body)
                if pre == "max_size" and b == ("block", [], ("mcall", ("path", ["self"]), "encoding_size", [])):
                    term = f"size_{name} " + " ".join(v for v, _ in args)
                else:
                    v = ev(b, {"self": self_value(sp)}, ctx)
                    if v.kind != "nat":
                        raise Outside(f"result is a {v.kind}")
                    term = v.term
                L += [f"/-- {origin} `{implty}::{fn}`" + ("; preconditions: " + "; ".join(ctx.pre) if ctx.pre else "") + " -/",
                      f"def {pre}_{name} {sig} : Nat :=".replace("  ", " "), f"  {term}", ""]
                items.append(f"{pre}_{name}")
                cov[pre] = "generated"
            except Outside as ex:
                g.untranslated.append(f"{pre}_{name}: {ex}")
        # ---- encoder
        ctx = Ctx(g, sp, src, rel)
        ctx.asserts = []
        try:
            if sp["put"] == "put_frame":
                impl, _ = find_body(src, r"impl<T: (?:bytes::)?BufMut> (?:super::io::)?WriteFrame<" + implty + r"> for T \{", f"impl WriteFrame<{implty}>")
                body, _ = find_body(impl, r"fn put_frame\(&mut self, frame: &" + implty + r"\) \{", "put_frame")
                env = {"frame": self_value(sp)}
                eargs = args
            else:
                impl, _ = find_body(src, r"impl<T, D> super::io::WriteDataFrame<" + implty + r", D> for T\s+where\s+T: bytes::BufMut \+ WriteData<D>,\s+D: ContinuousData,\s+\{", f"impl WriteDataFrame<{implty}>")
                body, _ = find_body(impl, r"fn put_data_frame\(&mut self, frame: &" + implty + r", data: &D\) \{", "put_data_frame")
                env = {"frame": self_value(sp), "data": V("data", "data")}
                eargs = args + [("data", "Bytes")]
            bs = run(parse_block(body), env, ctx, "self")
            esig = " ".join(f"({v} : {t})" for v, t in eargs)
            L += [f"/-- {rel} `{sp['put']}({implty})`: the bytes written" + ("; " + "; ".join(sorted(set(ctx.assume))) if ctx.assume else "") + " -/",
                  f"def enc_{name} {esig} : Bytes :=".replace("  ", " "), f"  {cat(bs)}", ""]
            items.append(f"enc_{name}")
            cov["enc"] = "generated"
            if ctx.asserts:
                L += [f"/-- {rel} `{sp['put']}({implty})`: the `assert_eq!`s executed first (panic when false) -/",
                      f"def encpre_{name} {esig} : Bool :=", "  " + " && ".join(f"({a})" for a in ctx.asserts), ""]
                items.append(f"encpre_{name}")
        except Outside as ex:
            g.untranslated.append(f"enc_{name}: {ex}")
        # ---- parser
        if sp["parser"] is None:
            cov["dec"] = "outside: " + NOT_TARGETS[f"dec_{name}"]
            continue
        ctx = Ctx(g, sp, src, rel)
        try:
            pn = sp["parser"]
            m = re.search(r"(?:pub(?:\(crate\))? )?fn " + pn + r"\(\s*([^)]*?),?\s*\)\s*->\s*([^{]+?)\s*\{", src, re.S)
            if not m:
                raise Outside(f"parser `{pn}` not found")
            body, _ = find_body(src, r"(?:pub(?:\(crate\))? )?fn " + pn + r"\(\s*[^)]*?,?\s*\)\s*->\s*[^{]+?\s*\{", pn)
            b = parse_block(body)
            env = {}
            dsig = ""
            if "outer" in sp:
                pnames = [x.split(":")[0].strip() for x in m.group(1).split(",") if x.strip()]
                if pnames != [o[0] for o in sp["outer"]]:
                    raise Outside(f"`{pn}` parameters are {pnames}, the binding expects {[o[0] for o in sp['outer']]}")
                if b[1] or b[2] is None or b[2][0] != "closure" or len(b[2][1]) != 1 or b[2][1][0][0] != "pbind":
                    raise Outside(f"`{pn}` is not a `move |input| ..` closure")
                inp = b[2][1][0][1]
                inner = b[2][2]
                if inner[0] != "block":
                    inner = ("block", [], inner)
                for pname, val, binder in sp["outer"]:
                    env[pname] = val
                    dsig += binder + " "
                b = inner
            else:
                inp = m.group(1).split(":")[0].strip()
            if not sp["fields"] and "enum" not in sp:
                env[sp["struct"]] = V("path_unit")
            ctx.aux = []
            term = dec_seq(b[1], b[2], env, ctx, body, {"rust": inp, "lean": "bs"})
            L += ctx.aux
            L += [f"/-- {rel} `{pn}` -/", f"def dec_{name} {dsig}: P {par(sp.get('dec_ty', 'Frame'))} := fun bs =>", f"  {term}", ""]
            items.append(f"dec_{name}")
            cov["dec"] = "generated"
        except Outside as ex:
            g.untranslated.append(f"dec_{name}: {ex}")
    L += ["/-! coverage (frame: size max enc dec) — `outside` items are tied by the differential run only", ""]
    for n, c in cover.items():
        L.append(f"  {n}: " + " | ".join(f"{k}={c.get(k, 'REFUSED')}" for k in ("size", "max_size", "enc", "dec")))
    L += ["-/", "", "end GmQuic.Gen.FrameCodec", ""]
    g.extra_items = items
    g.coverage = cover
    return "\n".join(L)


if __name__ == "__main__":          # debugging aid: python3 xlate/gen_framecodec.py [repo]
    from xlate import Gen
    g = Gen(sys.argv[1] if len(sys.argv) > 1 else "/repo")
    t = generate(g)
    print(t)
    print("UNTRANSLATED:", *g.untranslated, sep="\n  ", file=sys.stderr)
