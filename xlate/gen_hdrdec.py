"""T5 (fifth part): packet-header DECODER `be_header`  ->  Gen/HdrDec.lean

qbase/src/packet/header.rs `be_header` (long: two `be_connection_id`, then `LongHeaderBuilder::parse`;
short: `be_one_rtt_header`), header/long.rs `LongHeaderBuilder::parse` (the DISPATCH long type ->
specific parser -> `Header` variant, translated arm by arm), `be_initial` (translated:
`map(length_data(be_varint), Initial::from_slice)`), `be_zero_rtt` / `be_handshake` (`Ok((input, Unit))`).
Recognised as whole texts (an edit makes the translator refuse; their Lean reading is fixed below):
`be_retry` (last 16 bytes = integrity tag), `be_version_negotiation` (`many_till(be_u32, eof)`),
`be_one_rtt_header` (`take(dcid_len)` + `ConnectionId::from_slice`, which panics above MAX_CID_SIZE), the
two-cid prefix of `be_header`, and `be_packet_type` / `parse_long_type` (bit tests; constants by
gen_hdrconsts.py).  `Props/C05/GeneratedHdrDec.lean` proves `hdec_body = decHeaderBody` (Model/Header.lean).
"""
import os, re, sys
sys.path.insert(0, os.path.dirname(os.path.abspath(__file__)))
import gen_framecodec as FC
from rustfrag import Outside, parse_block, find_body

NAME = "HdrDec"
LONG = "qbase/src/packet/header/long.rs"
SHORT = "qbase/src/packet/header/short.rs"
HDR = "qbase/src/packet/header.rs"
V = FC.V
PINNED = [
    (LONG, "be_retry", r"pub fn be_retry\(input: &\[u8\]\) -> nom::IResult<&\[u8\], Retry> \{\s*if input\.len\(\) < 16 \{\s*return Err\(Err::Incomplete\(nom::Needed::new\(16\)\)\);\s*\}\s*let token_length = input\.len\(\) - 16;\s*let \(integrity, token\) = take\(token_length\)\(input\)\?;\s*Ok\(\(&\[\]\[\.\.\], Retry::new\(token, integrity\)\)\)\s*\}"),
    (LONG, "be_version_negotiation", r"pub fn be_version_negotiation\(input: &\[u8\]\) -> nom::IResult<&\[u8\], VersionNegotiation> \{\s*let \(remain, \(versions, _\)\) = many_till\(be_u32, eof\)\.parse\(input\)\?;\s*Ok\(\(remain, VersionNegotiation::new\(versions\)\)\)\s*\}"),
    (LONG, "nom imports of long.rs io", r"bytes::streaming::take,\s*combinator::\{eof, map\},\s*multi::\{length_data, many_till\},\s*number::streaming::be_u32,"),
    (SHORT, "be_one_rtt_header", r"use nom::bytes::streaming::take;\s*let \(remain, dcid\) = take\(dcid_len\)\(input\)\?;\s*let dcid = crate::cid::ConnectionId::from_slice\(dcid\);\s*Ok\(\(remain, OneRttHeader \{ spin, dcid \}\)\)"),
    (HDR, "be_header", r"match packet_type \{\s*Type::Long\(long_ty\) => \{\s*let \(remain, dcid\) = be_connection_id\(input\)\?;\s*let \(remain, scid\) = be_connection_id\(remain\)\?;\s*let builder = LongHeaderBuilder \{ dcid, scid \};\s*builder\.parse\(long_ty, remain\)\s*\}\s*Type::Short\(OneRtt\(spin\)\) => \{\s*let \(remain, one_rtt\) = be_one_rtt_header\(spin, dcid_len, input\)\?;\s*Ok\(\(remain, Header::OneRtt\(one_rtt\)\)\)\s*\}\s*\}"),
    ("qbase/src/packet/type.rs", "be_packet_type", r"let \(remain, ty\) = nom::number::streaming::be_u8\(input\)\?;\s*if ty & HEADER_FORM_MASK == 0 \{\s*Ok\(\(remain, Type::Short\(short::OneRtt::from\(ty\)\)\)\)\s*\} else \{\s*let \(remain, ty\) = long::io::parse_long_type\(ty\)\(remain\)\?;\s*Ok\(\(remain, Type::Long\(ty\)\)\)\s*\}"),
    ("qbase/src/packet/type/long.rs", "parse_long_type", r"let \(remain, version\) = be_u32\(input\)\?;\s*match version \{\s*0 => Ok\(\(remain, Type::VersionNegotiation\)\),\s*1 => Ok\(\(\s*remain,\s*Type::V1\(Version::<1, v1::Type>\(\s*ty\.try_into\(\)\.map_err\(nom::Err::Error\)\?,\s*\)\),\s*\)\),\s*v => Err\(nom::Err::Error\(Error::UnsupportedVersion\(v\)\)\),\s*\}"),
]
# specific parser -> (lean term applied to remainder `r`, how the Header ctor uses the value `x`)
FIXED = {
    "be_version_negotiation": "pVersions (r.length + 1) r",
    "be_retry": "(if r.length < 16 then HRes.err .incomplete else HRes.ok (r.take (r.length - 16), r.drop (r.length - 16)) [])",
}
CTOR = {"VN": ".vn d s x", "Retry": ".retry d s x.1 x.2", "Initial": ".initial d s x", "ZeroRtt": ".zeroRtt d s", "Handshake": ".handshake d s"}
LHS = {"VersionNegotiation": ".vn", "Retry": ".v1 .retry", "Initial": ".v1 .initial", "ZeroRtt": ".v1 .zeroRtt", "Handshake": ".v1 .handshake"}
SPEC_OF = {"be_version_negotiation": "VN", "be_retry": "Retry", "be_initial": "Initial", "be_zero_rtt": "ZeroRtt", "be_handshake": "Handshake"}


def generate(g):
    from xlate import lean_header
    for rel, what, rx in PINNED:
        if not re.search(rx, FC.src_of(g, rel), re.S):
            g.untranslated.append(f"HdrDec: text of `{what}` ({rel}) left the recognised shape")
    src = FC.src_of(g, LONG)
    L = lean_header("GmQuic.Gen.HdrDec")
    L[1:1] = ["import GmQuic.Model.Header"]
    L += ["set_option linter.unusedVariables false", "open GmQuic.Wire GmQuic.Codec GmQuic.Gen", ""]
    items = []
    spec = {"name": "hdr", "struct": "", "fields": []}
    try:
        # ---- be_initial (translated), be_zero_rtt / be_handshake (unit)
        body, _ = find_body(src, r"pub fn be_initial\(input: &\[u8\]\) -> nom::IResult<&\[u8\], Initial> \{", "be_initial")
        b = parse_block(body)
        if b[1] or b[2] is None or b[2][0] != "mcall" or b[2][2] != "parse" or b[2][3] != [("path", ["input"])]:
            raise Outside("be_initial is not `<parser>.parse(input)`")
        if not re.search(r"pub fn from_slice\(token: &\[u8\]\) -> Self \{\s*Self \{\s*token: Vec::from\(token\),?\s*\}\s*\}|pub fn from_slice\(token: &\[u8\]\) -> Self \{\s*Initial \{\s*token: (?:Vec::from\(token\)|token\.to_vec\(\)),?\s*\}\s*\}", src):
            raise Outside("Initial::from_slice is not a plain copy of the token")
        ctx = FC.Ctx(g, spec, src, LONG)
        ctx.reswrap = lambda t: f"HRes.ofRes ({t})"

        def mapfn(f):
            if f != ("path", ["Initial", "from_slice"]):
                raise Outside("be_initial maps with something other than Initial::from_slice")
            return lambda v: v
        ctx.mapfn = mapfn
        term = FC.comb(b[2][1], {}, ctx, body)("r", lambda v, r: f".ok {v.term} {r}")
        L += [f"/-- {LONG} `be_initial` -/", "def hspec_initial : Bytes → HRes Bytes := fun r =>", f"  {term}", ""]
        items.append("hspec_initial")
        for fn, unit in (("be_zero_rtt", "ZeroRtt"), ("be_handshake", "Handshake")):
            if not re.search(r"pub fn " + fn + r"\(input: &\[u8\]\) -> nom::IResult<&\[u8\], " + unit + r"> \{\s*Ok\(\(input, " + unit + r"\)\)\s*\}", src):
                raise Outside(f"{fn} is not `Ok((input, {unit}))`")
        # ---- LongHeaderBuilder::parse: the dispatch
        impl, _ = find_body(src, r"impl LongHeaderBuilder \{", "impl LongHeaderBuilder")
        body, _ = find_body(impl, r"pub fn parse\(self, ty: LongType, input: &\[u8\]\) -> nom::IResult<&\[u8\], Header> \{", "LongHeaderBuilder::parse")
        b = parse_block(body)
        if b[1] or b[2][0] != "match" or b[2][1] != ("path", ["ty"]):
            raise Outside("parse is not `match ty`")
        arms = []

        def arm(tyname, e):
            if e[0] != "block" or len(e[1]) != 1 or e[1][0][0] != "let" or e[2] is None:
                raise Outside(f"arm {tyname}: not `let (remain, x) = P(input)?; Ok((remain, Header::V(self.wrap(x))))`")
            pat, rhs = e[1][0][1], e[1][0][2]
            if not (pat[0] == "ptuple" and pat[1][0] == ("pbind", "remain") and pat[1][1][0] == "pbind" and rhs[0] == "try"
                    and rhs[1][0] == "call" and rhs[1][1][0] == "path" and rhs[1][2] == [("path", ["input"])]):
                raise Outside(f"arm {tyname}: let shape")
            x, pname = pat[1][1][1], rhs[1][1][1][-1]
            t = e[2]
            ok = (t[0] == "call" and t[1] == ("path", ["Ok"]) and t[2][0][0] == "tuple" and t[2][0][1][0] == ("path", ["remain"])
                  and t[2][0][1][1][0] == "call" and t[2][0][1][1][1][0] == "path" and t[2][0][1][1][1][1][0] == "Header"
                  and t[2][0][1][1][2] == [("mcall", ("path", ["self"]), "wrap", [("path", [x])])])
            if not ok:
                raise Outside(f"arm {tyname}: result shape")
            variant = t[2][0][1][1][1][1][1]
            if pname not in SPEC_OF or SPEC_OF[pname] != variant or variant not in CTOR:
                raise Outside(f"arm {tyname}: `{pname}` with `Header::{variant}` is not a parser/variant pair of the binding")
            p = FIXED.get(pname) or {"be_initial": "hspec_initial r", "be_zero_rtt": "HRes.ok () r", "be_handshake": "HRes.ok () r"}[pname]
            arms.append((LHS[tyname], f"({p}).bind fun x r => .ok ({CTOR[variant]}) r"))

        for pat, e in b[2][2]:
            if pat == ("pctor", ["LongType", "VersionNegotiation"], None):
                arm("VersionNegotiation", e)
            elif pat == ("pctor", ["LongType", "V1"], [("pbind", "ty")]):
                if e[0] != "match" or e[1] != ("mcall", ("path", ["ty"]), "deref", []):
                    raise Outside("V1 arm is not `match ty.deref()`")
                for p2, e2 in e[2]:
                    if p2[0] != "pctor" or p2[1][0] != "LongV1Type" or p2[1][1] not in LHS or p2[2] is not None:
                        raise Outside("V1 sub-arm pattern")
                    arm(p2[1][1], e2)
            else:
                raise Outside(f"parse arm pattern {pat}")
        if sorted(a for a, _ in arms) != sorted(LHS.values()):
            raise Outside("parse does not have exactly one arm per long type")
        L += [f"/-- {HDR} `be_header` with {LONG} `LongHeaderBuilder::parse` and {SHORT} `be_one_rtt_header` -/",
              "def hdec_body (t : PType) (dcidLen : Nat) : Bytes → HRes Header := fun bs =>", "  match t with",
              "  | .short spin =>", "    (HRes.ofRes (pTakeS dcidLen bs)).bind fun d r =>",
              "    if d.length > maxCidSize then .panic \"ConnectionId::from_slice: len > MAX_CID_SIZE\" else .ok (.oneRtt spin d) r"]
        for lhs, rhs in arms:
            L += [f"  | {lhs} =>", "    (HRes.ofRes (pCid bs)).bind fun d r => (HRes.ofRes (pCid r)).bind fun s r =>", f"    {rhs}"]
        L += [""]
        items.append("hdec_body")
    except Outside as ex:
        g.untranslated.append(f"HdrDec: {ex}")
    L += ["end GmQuic.Gen.HdrDec", ""]
    g.extra_items = items
    return "\n".join(L)


if __name__ == "__main__":
    from xlate import Gen
    g = Gen(sys.argv[1] if len(sys.argv) > 1 else "/repo")
    print(generate(g))
    print("UNTRANSLATED:", *g.untranslated, sep="\n  ", file=sys.stderr)
