"""C20: the `event!` expansion's span-field loads and every `span!` / `event!` call site -> Gen/QSpans.lean

* `knownLoads`: the `@load_known` lines of `macro_rules! event` (qevent/src/telemetry/macros.rs): which span
  fields every event site reads and as which type;
* `spanSites`: every `qevent::span!` / `crate::span!` call outside test code, with the fields it adds and the JSON
  kind of each value when it is syntactically determinable (`….to_string()`, `String::from(…)`, `format!(…)`, a string
  literal -> "s"; a bare identifier whose enclosing fn declares it as `GroupID` / `PathID` -> "s"); anything else is
  listed in `spanSitesUncovered` (never guessed);
* `eventSites`: every `qevent::event!` / `event!` call outside test code with the event type when written as
  `Type { … }` and the names of the custom fields passed after the data expression.
"""
import os, re, glob

NAME = "QSpans"


def generate(g):
    from xlate import lean_header
    import gen_qevent as Q
    repo = g.repo
    mac = Q.strip_comments(open(os.path.join(repo, "qevent/src/telemetry/macros.rs")).read())
    m = re.search(r"macro_rules!\s*event\s*\{", mac)
    if not m:
        g.untranslated.append("macro_rules! event not found"); return None
    body = mac[m.end() - 1:Q.balanced(mac, m.end() - 1, "{", "}")]
    loads = re.findall(r"\$crate::event!\(@load_known __event_builder, (\w+): \$crate::(\w+)\);", body)
    if not loads or len(loads) != body.count("@load_known __event_builder"):
        g.untranslated.append("event!: @load_known lines left the recognised shape"); return None
    if "try_load_current_span::<$type>(stringify!($name))" not in body:
        g.untranslated.append("event!: @load_known no longer goes through try_load_current_span"); return None
    ms = Q.strip_comments(open(os.path.join(repo, "qevent/src/telemetry/macro_support.rs")).read())
    if not re.search(r"pub fn try_load_current_span<T: DeserializeOwned>\(name: &'static str\) -> Option<T> \{\s*current_span::CURRENT_SPAN\.with\(\|span\| \{\s*let span = span\.borrow\(\);\s*Some\(from_value::<T>\(span\.fields\.get\(name\)\?\.clone\(\)\)\)", ms) \
       or not re.search(r"pub fn from_value<T: DeserializeOwned>\(value: Value\) -> T \{\s*serde_json::from_value\(value\)\.unwrap\(\)", ms):
        g.untranslated.append("macro_support::try_load_current_span / from_value left the recognised shape (missing -> None, ill-typed -> unwrap panic)"); return None

    # --- the repo's own loggers: where does the fallible work of a storage happen? -------------------------------
    hs = Q.strip_comments(open(os.path.join(repo, "qevent/src/telemetry/handy.rs")).read())
    storages = []
    for sm in re.finditer(r"impl\s+TelemetryStorage\s+for\s+([\w:]+)\s*\{", hs):
        ib = hs[sm.end() - 1:Q.balanced(hs, sm.end() - 1, "{", "}")]
        jm = re.search(r"fn\s+join\s*\(", ib)
        if not jm:
            g.untranslated.append(f"impl TelemetryStorage for {sm.group(1)}: fn join not found"); return None
        bstart = ib.index("{", ib.index("->", jm.end()))
        # the return type contains no `{`; body of join:
        body_j = ib[bstart:Q.balanced(ib, bstart, "{", "}")]
        am = re.search(r"async\s+move\s*\{", body_j)
        if not am:
            g.untranslated.append(f"impl TelemetryStorage for {sm.group(1)}: join does not end in an `async move` block"); return None
        aend = Q.balanced(body_j, am.end() - 1, "{", "}")
        outside = body_j[1:am.start()] + body_j[aend:-1]
        if outside[len(body_j[1:am.start()]):].strip():
            g.untranslated.append(f"impl TelemetryStorage for {sm.group(1)}: code after the `async move` block"); return None
        eager = bool(re.search(r"panic!|\.unwrap\(|\.expect\(|unwrap_or_else|\?\s*;|unreachable!|assert", outside))
        storages.append((sm.group(1), eager))
    nt = re.search(r"impl<S: TelemetryStorage> QLog for LegacySeqLogger<S> \{\s*fn new_trace\(&self, vantage_point: VantagePointType, group_id: GroupID\) -> Span \{", hs)
    if not nt:
        g.untranslated.append("LegacySeqLogger::new_trace left the recognised shape"); return None
    ntb = hs[nt.end() - 1:Q.balanced(hs, nt.end() - 1, "{", "}")]
    sp = re.search(r"tokio::spawn\(async move \{", ntb)
    awaited_in_task = bool(sp) and bool(re.search(r"let file = self\.storage\.join\(&file_name\);", ntb[:sp.start()])) \
        and "file.await" in ntb[sp.end():Q.balanced(ntb, sp.end() - 1, "{", "}")] and ".await" not in ntb[:sp.start()]
    caller_part = ntb[:sp.start()] + ntb[Q.balanced(ntb, sp.end() - 1, "{", "}"):] if sp else ntb
    caller_fallible = bool(re.search(r"panic!|\.unwrap\(|\.expect\(|unwrap_or_else|unreachable!", caller_part))
    send_ignored = bool(re.search(r"impl ExportEvent for mpsc::UnboundedSender<Event> \{\s*fn emit\(&self, event: Event\) \{\s*_ = self\.send\(event\);\s*\}", hs))

    span_sites, span_unc, event_sites = [], [], []
    files = []
    for crate in sorted(os.listdir(repo)):
        d = os.path.join(repo, crate, "src")
        if os.path.isdir(d):
            files += sorted(glob.glob(os.path.join(d, "**", "*.rs"), recursive=True))
    for f in files:
        rel = os.path.relpath(f, repo)
        raw = open(f).read()
        src = Q.strip_comments(raw)
        # cut test modules
        tm = re.search(r"#\[cfg\(test\)\]\s*mod\s+\w+\s*\{", src)
        code = src[:tm.start()] if tm else src
        if rel.startswith("qevent/src/telemetry/macros.rs") or rel.startswith("qevent/src/macros.rs"):
            continue
        for mm in re.finditer(r"(?<![\w:])((?:qevent::|crate::|\$crate::)?)(span|event)!\s*\(", code):
            pre = code[max(0, mm.start() - 9):mm.start()]
            if pre.endswith("tracing::") or re.search(r"(debug_|info_|trace_|warn_|error_)$", pre):
                continue
            if not mm.group(1) and not re.search(r"use\s+(qevent|crate)::[^;]*\b" + mm.group(2) + r"\b", code) and not rel.startswith("qevent/"):
                continue
            e = Q.balanced(code, mm.end() - 1, "(", ")")
            args = Q.split_top(code[mm.end():e - 1])
            line = code.count("\n", 0, mm.start()) + 1
            site = f"{rel}:{line}"
            if mm.group(2) == "span":
                if not args:
                    continue            # span!() = current span
                fields, ok = [], True
                # enclosing fn parameter types
                fnm = None
                for fm in re.finditer(r"\bfn\s+\w+[^{;]*\(([^{;]*)\)[^{;]*\{", code[:mm.start()], re.S):
                    fnm = fm
                params = fnm.group(1) if fnm else ""
                for a in args[1:]:
                    am = re.fullmatch(r"(\w+)(?:\s*=\s*(.+))?", a, re.S)
                    if not am:
                        ok = False; span_unc.append((site, f"argument `{a[:40]}`")); break
                    name, val = am.group(1), (am.group(2) or am.group(1)).strip()
                    if re.fullmatch(r'.*\.to_string\(\)|String::from\(.*\)|format!\(.*\)|"[^"]*"(\.to_owned\(\))?', val, re.S):
                        kind = "s"
                    elif re.fullmatch(r"\w+", val) and re.search(r"\b" + val + r"\s*:\s*(GroupID|PathID|String)\b", params):
                        kind = "s"
                    else:
                        ok = False; span_unc.append((site, f"value of `{name}` not syntactically a string: `{val[:40]}`")); break
                    fields.append((name, kind))
                if ok:
                    span_sites.append((site, "current" if args[0].strip() == "@current" else "root", fields))
            else:
                if not args:
                    continue
                tm2 = re.match(r"\s*(?:[\w:]+::)?(\w+)\s*\{", args[0])
                ety = tm2.group(1) if tm2 else "?"
                customs = []
                for a in args[1:]:
                    am = re.match(r"(\w+)\s*(=|$)", a)
                    customs.append(am.group(1) if am else "?")
                event_sites.append((site, ety, customs))

    def lstr(s):
        return '"' + s.replace("\\", "\\\\").replace('"', '\\"') + '"'
    lines = lean_header("GmQuic.Gen.QSpans")
    lines[0:0] = ["import GmQuic.Gen.QEvent"]
    lines.insert(3, "open GmQuic.Model.Json GmQuic.Gen.QEvent")
    lines.append("/-- qevent/src/telemetry/macros.rs `event!`: `@load_known` — span fields every event site reads (missing: skipped; present but not deserialisable: `unwrap` panics) -/")
    lines.append("def knownLoads : List (String × Schema) := [" + ", ".join(f"({lstr(n)}, T_{t})" for n, t in loads) + "]")
    lines.append("")
    lines.append("/-- qevent/src/telemetry/handy.rs: every `impl TelemetryStorage for T`: does `join` do fallible work (panic!/unwrap/expect/?) OUTSIDE the future it returns, i.e. on the stack of `new_trace`'s caller? -/")
    lines.append("def storageJoinEager : List (String × Bool) := [" + ", ".join(f"({lstr(n)}, {'true' if e else 'false'})" for n, e in storages) + "]")
    lines.append("/-- `LegacySeqLogger::new_trace`: the storage future is only awaited inside the writer task it spawns; no panicking call on the caller's side; `UnboundedSender::emit` ignores the send error of a closed channel -/")
    lines.append(f"def seqLoggerAwaitsInTask : Bool := {'true' if awaited_in_task else 'false'}")
    lines.append(f"def seqLoggerCallerFallible : Bool := {'true' if caller_fallible else 'false'}")
    lines.append(f"def senderEmitIgnoresClosedChannel : Bool := {'true' if send_ignored else 'false'}")
    lines.append("")
    lines.append("/-- (site, root|current, fields added with the JSON kind of the value) -/")
    lines.append("def spanSites : List (String × String × List (String × String)) := [")
    lines.append(",\n".join(f"  ({lstr(s)}, {lstr(r)}, [" + ", ".join(f"({lstr(n)}, {lstr(k)})" for n, k in fl) + "])" for s, r, fl in span_sites))
    lines.append("]")
    lines.append("def spanSitesUncovered : List (String × String) := [")
    lines.append(",\n".join(f"  ({lstr(s)}, {lstr(w)})" for s, w in span_unc))
    lines.append("]")
    lines.append("")
    lines.append("/-- (site, event type, custom field names) -/")
    lines.append("def eventSites : List (String × String × List String) := [")
    lines.append(",\n".join(f"  ({lstr(s)}, {lstr(t)}, [" + ", ".join(lstr(c) for c in cs) + "])" for s, t, cs in event_sites))
    lines.append("]")
    lines += ["", "end GmQuic.Gen.QSpans", ""]
    g.extra_items = [f"{len(span_sites)} span sites (+{len(span_unc)} uncovered), {len(event_sites)} event sites, {len(loads)} known loads"]
    return "\n".join(lines)
