"""C18 (T2): the transport-parameter table of qbase -> Gen/Params.lean

Regenerated from the Rust source on every run:
* `enum ParameterId` with its `#[param(value_type = …, default = …, bound = lo..=hi)]` attributes
  (qbase/src/param/core.rs): id number, value type, default, bound;
* `ParameterId::belong_to` (which role may send an id);
* `RequiredParameters for Client / Server` (qbase/src/role.rs): the mandatory sets;
* the id list and comparison of `ServerParameters::is_0rtt_accepted`;
* the meaning of `bound` (qmacro/src/derive.rs `gen_validate`) and the body of `Parameters<R>::set` are
  *checked* to have the shape the hand-written model `Model/Params.lean` transliterates.
Every pattern must match; a source that leaves the recognised shape is reported as untranslated (never guessed)."""
import re

NAME = "Params"

TYPES = ["VarInt", "Boolean", "Bytes", "Duration", "ResetToken", "ConnectionId", "PreferredAddress"]
LEAN_TY = {"VarInt": "varint", "Boolean": "boolean", "Bytes": "bytes", "Duration": "duration",
           "ResetToken": "resetToken", "ConnectionId": "connectionId", "PreferredAddress": "preferredAddress"}


def _norm(s):
    return " ".join(s.split())


def _strip_comments(s):
    s = re.sub(r"//[^\n]*", "", s)
    return re.sub(r"/\*.*?\*/", "", s, flags=re.S)


def generate(g):
    from xlate import lean_header, read, rust_int
    core_rel, role_rel, mac_rel, sid_rel, vi_rel = ("qbase/src/param/core.rs", "qbase/src/role.rs",
                                                    "qmacro/src/derive.rs", "qbase/src/sid.rs", "qbase/src/varint.rs")
    core = read(g.repo, core_rel)
    consts = {}
    m = re.search(r"pub const VARINT_MAX: u64 = ([^;]+);", read(g.repo, vi_rel))
    if m: consts["VARINT_MAX"] = rust_int(m.group(1))
    m = re.search(r"pub const MAX_STREAMS_LIMIT: u64 = ([^;]+);", read(g.repo, sid_rel))
    if m: consts["MAX_STREAMS_LIMIT"] = rust_int(m.group(1))

    def value(expr):
        e = expr.strip()
        e = re.sub(r"\b(?:crate::)?(?:sid::|varint::)?(VARINT_MAX|MAX_STREAMS_LIMIT)\b",
                   lambda mm: str(consts[mm.group(1)]) if mm.group(1) in consts else mm.group(0), e)
        return rust_int(e)

    # ---- the enum -------------------------------------------------------------------------------
    m = re.search(r"#\[derive\(qmacro::ParameterId,[^\]]*\)\]\s*pub enum ParameterId \{(.*?)\n\}", core, re.S)
    if not m:
        g.untranslated.append(f"ParameterId: enum with #[derive(qmacro::ParameterId…)] not found in {core_rel}")
        return None
    body = _strip_comments(m.group(1))
    rows = []
    pos = 0
    var_re = re.compile(r"\s*#\[param\((.*?)\)\]\s*(\w+)\s*=\s*(0x[0-9a-fA-F_]+|\d[\d_]*)\s*,", re.S)
    while True:
        mm = var_re.match(body, pos)
        if not mm:
            break
        pos = mm.end()
        attr, name, disc = mm.group(1), mm.group(2), int(mm.group(3).replace("_", ""), 0)
        # split attr on top-level commas
        parts, depth, cur = [], 0, ""
        for ch in attr:
            if ch in "([": depth += 1
            if ch in ")]": depth -= 1
            if ch == "," and depth == 0:
                parts.append(cur); cur = ""
            else:
                cur += ch
        if cur.strip(): parts.append(cur)
        kv = {}
        for p in parts:
            k, _, v = p.partition("=")
            k = k.strip()
            if k in kv or k not in ("value_type", "default", "bound"):
                g.untranslated.append(f"ParameterId::{name}: unrecognised #[param] key {k!r}")
                return None
            kv[k] = v.strip()
        ty = kv.get("value_type")
        if ty not in TYPES:
            g.untranslated.append(f"ParameterId::{name}: value_type {ty!r} outside the fragment")
            return None
        dflt = None
        if "default" in kv:
            d = kv["default"]
            if d == "Duration::ZERO":
                dflt = ("Duration", 0)
            elif (md := re.fullmatch(r"Duration::from_millis\(([^)]+)\)", d)):
                dflt = ("Duration", value(md.group(1)))
            elif re.fullmatch(r"[0-9_]+u32", d):
                dflt = ("VarInt", value(d))          # From<u32> for ParameterValue = VarInt
            else:
                g.untranslated.append(f"ParameterId::{name}: default {d!r} outside the fragment")
                return None
        bound = None
        if "bound" in kv:
            mb = re.fullmatch(r"(.+?)\.\.=(.+)", kv["bound"])
            if not mb:
                g.untranslated.append(f"ParameterId::{name}: bound {kv['bound']!r} is not `lo..=hi`")
                return None
            if ty not in ("VarInt", "Duration"):
                g.untranslated.append(f"ParameterId::{name}: bound on a {ty} (the derive rejects it)")
                return None
            bound = (value(mb.group(1)), value(mb.group(2)))
        rows.append((disc, name, ty, dflt, bound))
    if body[pos:].strip():
        g.untranslated.append(f"ParameterId: variant text outside the recognised shape: {_norm(body[pos:])[:80]!r}")
        return None
    if not rows or len({r[0] for r in rows}) != len(rows):
        g.untranslated.append("ParameterId: no variants / duplicate discriminants")
        return None
    ids = {name: disc for disc, name, *_ in rows}

    # ---- belong_to ------------------------------------------------------------------------------
    m = re.search(r"pub fn belong_to\(self, role: Role\) -> Result<\(\), Error> \{\s*match self \{(.*?)\n        \}\s*\}", core, re.S)
    if not m:
        g.untranslated.append("belong_to: function not found / shape changed")
        return None
    bt = _strip_comments(m.group(1))
    only = {"Server": [], "Client": []}
    arm_re = re.compile(r"\s*((?:ParameterId::\w+\s*\|?\s*)+)if role != Role::(Server|Client)\s*=>\s*\{\s*Err\(Error::InvalidParameterId\(self, role\)\)\s*\}\s*,?", re.S)
    pos = 0
    while True:
        mm = arm_re.match(bt, pos)
        if not mm:
            break
        pos = mm.end()
        for nm in re.findall(r"ParameterId::(\w+)", mm.group(1)):
            if nm not in ids:
                g.untranslated.append(f"belong_to: unknown variant {nm}")
                return None
            only[mm.group(2)].append(ids[nm])
    if _norm(bt[pos:]) != "_ => Ok(()),":
        g.untranslated.append(f"belong_to: arms outside the recognised shape: {_norm(bt[pos:])[:100]!r}")
        return None

    # ---- required parameters --------------------------------------------------------------------
    role_src = read(g.repo, role_rel)
    req = {}
    for r in ("Client", "Server"):
        m = re.search(r"impl RequiredParameters for " + r + r" \{\s*fn required_parameters\(\) -> impl IntoIterator<Item = ParameterId> \{\s*\[(.*?)\]\s*\.into_iter\(\)\s*\}\s*\}", role_src, re.S)
        if not m:
            g.untranslated.append(f"required_parameters for {r}: shape changed")
            return None
        items = [x.strip() for x in _strip_comments(m.group(1)).split(",") if x.strip()]
        out = []
        for it in items:
            mm = re.fullmatch(r"ParameterId::(\w+)", it)
            if not mm or mm.group(1) not in ids:
                g.untranslated.append(f"required_parameters for {r}: item {it!r}")
                return None
            out.append(ids[mm.group(1)])
        req[r] = out

    # ---- is_0rtt_accepted -----------------------------------------------------------------------
    m = re.search(r"pub fn is_0rtt_accepted\(&self, server_params: &ServerParameters\) -> bool \{\s*\[(.*?)\]\s*\.into_iter\(\)\s*\.all\(\s*\|id\| match \(self\.get::<VarInt>\(id\), server_params\.get::<VarInt>\(id\)\) \{\s*\(Some\(old_value\), Some\(new_value\)\) => old_value <= new_value,\s*_ => unreachable!\([^)]*\),\s*\},\s*\)\s*\}", core, re.S)
    if not m:
        g.untranslated.append("is_0rtt_accepted: shape changed")
        return None
    zr = []
    for it in [x.strip() for x in _strip_comments(m.group(1)).split(",") if x.strip()]:
        mm = re.fullmatch(r"ParameterId::(\w+)", it)
        if not mm or mm.group(1) not in ids:
            g.untranslated.append(f"is_0rtt_accepted: item {it!r}")
            return None
        zr.append(ids[mm.group(1)])

    # ---- shapes the hand-written model transliterates (checked, not translated) ---------------
    set_shape = r"pub fn set\(&mut self, id: ParameterId, value: impl Into<ParameterValue>\) -> Result<\(\), Error> \{\s*let role: Role = R::into_role\(\);\s*id\.belong_to\(role\)\?;\s*let value = value\.into\(\);\s*id\.validate\(&value\)\?;\s*self\.map\.insert\(id, value\);\s*Ok\(\(\)\)\s*\}"
    if not re.search(set_shape, core):
        g.untranslated.append("Parameters::set: body is no longer belong_to?; validate?; insert")
    get_shape = r"\(self\.map\.get\(&id\)\.cloned\(\)\.or_else\(\|\| id\.default_value\(\)\)\)\s*\.and_then\(\|value\| value\.try_into\(\)\.ok\(\)\)"
    if not re.search(get_shape, core):
        g.untranslated.append("Parameters::get: body is no longer map.get(id).or_else(default).and_then(try_into)")
    mac = _norm(read(g.repo, mac_rel))
    for what, frag in [
        ("no bound => no check", "let Some(bound) = &self.bound else { return Ok(quote! {}); };"),
        ("type test", "let ParameterValue::#value_type(v) = value else { return Err(Error::InvalidValueType( Self::#id, value.value_type(), )); };"),
        ("VarInt conversion", "ParamType::VarInt => quote! { v.into_u64() },"),
        ("Duration conversion", "ParamType::Duration => quote! { v.as_millis() as u64 },"),
        ("range test", "if !(#bound).contains(&value) { return Err(Error::OutOfBounds ( Self::#id, value, #bound, )); }"),
        ("unknown id", "unknown => return Err(Error::UnknownParameterId(value))"),
    ]:
        if frag not in mac:
            g.untranslated.append(f"qmacro derive ({what}): fragment not found: {frag[:60]!r}")
    if g.untranslated:
        return None

    # ---- emit -----------------------------------------------------------------------------------
    L = lean_header("GmQuic.Gen.Params")
    L += ["/-- `ParameterValueType` (qbase/src/param/core.rs). -/",
          "inductive Ty | varint | boolean | bytes | duration | resetToken | connectionId | preferredAddress",
          "  deriving DecidableEq, Repr, Inhabited", "",
          "/-- One `#[param(value_type, default, bound)] Name = id` line of `enum ParameterId`.",
          "`dflt` = type and number of the default value (`From<u32>` ⇒ VarInt; Duration in ms); `bound` = `lo..=hi`. -/",
          "structure Row where", "  id : Nat", "  name : String", "  ty : Ty", "  dflt : Option (Ty × Nat)", "  bound : Option (Nat × Nat)",
          "  deriving DecidableEq, Repr, Inhabited", "",
          f"/-- {core_rel}: `enum ParameterId` -/", "def table : List Row := ["]
    def opt(x, f):
        return "none" if x is None else f"some {f(x)}"
    for i, (disc, name, ty, dflt, bound) in enumerate(rows):
        sep = "," if i + 1 < len(rows) else ""
        L.append(f"  ⟨{disc}, \"{name}\", .{LEAN_TY[ty]}, {opt(dflt, lambda d: f'(.{LEAN_TY[d[0]]}, {d[1]})')}, {opt(bound, lambda b: f'({b[0]}, {b[1]})')}⟩{sep}")
    L += ["]", ""]
    def lst(xs): return "[" + ", ".join(str(x) for x in xs) + "]"
    L += [f"/-- {core_rel} `belong_to`: ids refused unless the sender role is Server -/", f"def serverOnly : List Nat := {lst(only['Server'])}",
          "/-- `belong_to`: ids refused unless the sender role is Client -/", f"def clientOnly : List Nat := {lst(only['Client'])}",
          f"/-- {role_rel}: `RequiredParameters for Client` -/", f"def requiredClient : List Nat := {lst(req['Client'])}",
          f"/-- {role_rel}: `RequiredParameters for Server` -/", f"def requiredServer : List Nat := {lst(req['Server'])}",
          f"/-- {core_rel}: ids compared (`old <= new`) by `ServerParameters::is_0rtt_accepted` -/", f"def zeroRttIds : List Nat := {lst(zr)}",
          "", "end GmQuic.Gen.Params", ""]
    g.extra_items = ["table", "serverOnly", "clientOnly", "requiredClient", "requiredServer", "zeroRttIds",
                     "shape:Parameters::set", "shape:Parameters::get", "shape:qmacro::gen_validate"]
    return "\n".join(L)
