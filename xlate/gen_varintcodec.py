"""T5 (sixth part): the varint primitives of qbase/src/varint.rs  ->  Gen/VarintCodec.lean

`WriteVarInt::put_varint` and `VarInt::encoding_size`: an `if x < 1 << k { .. } else if .. else { unreachable!() }`
chain over `let x = value.0`, with `put_u8/u16/u32/u64(<literal> << k | x as uN)`.  Shifts, `|` and the
`as uN` truncations are emitted literally (`<<<`, `|||`, `% 2^N`); `Props/C05/GeneratedVarint.lean` proves the
bit form equal to the div/mod form of Model/Wire.lean (`encVarint`, `varintSize`) for every x < 2^62 (the
`unreachable!` arm is the recorded panic region).  `be_varint` is a nom BIT-level parser
(`take(2usize)` over `(input, 0)`, then `take((8 << prefix) - 2)`): outside the fragment, pinned as a whole
text (an edit makes the translator refuse); it stays tied by the hand model `decVarint` + differential run.
"""
import os, re, sys
sys.path.insert(0, os.path.dirname(os.path.abspath(__file__)))
import gen_framecodec as FC
from rustfrag import Outside, parse_block, find_body

NAME = "VarintCodec"
REL = "qbase/src/varint.rs"
BE_VARINT = r"pub fn be_varint\(input: &\[u8\]\) -> IResult<&\[u8\], VarInt> \{\s*flat_map\(take\(2usize\), \|prefix: u8\| \{\s*take::<&\[u8\], u64, usize, Error<\(&\[u8\], usize\)>>\(\(8 << prefix\) - 2\)\s*\}\)\s*\.parse\(\(input, 0\)\)\s*\.map_err\(\|err\| match err \{\s*nom::Err::Incomplete\(needed\) => \{\s*nom::Err::Incomplete\(needed\.map\(\|n\| n\.get\(\)\.div_ceil\(8\) - input\.len\(\)\)\)\s*\}\s*_ => unreachable!\(\),\s*\}\)\s*\.map\(\|\(\(buf, _\), value\)\| \(buf, VarInt\(value\)\)\)\s*\}"
WIDTH = {"u8": 1, "u16": 2, "u32": 4, "u64": 8}


def num(e, env):
    """integer expression -> (lean term, rust type or None)"""
    k = e[0]
    if k == "int":
        return str(e[1])
    if k == "path" and len(e[1]) == 1 and e[1][0] in env:
        return env[e[1][0]]
    if k == "bin" and e[1] == "<<":
        return f"({num(e[2], env)} <<< {num(e[3], env)})"
    if k == "bin" and e[1] == "|":
        return f"({num(e[2], env)} ||| {num(e[3], env)})"
    if k == "cast" and e[2] in WIDTH:
        return num(e[1], env) if e[2] == "u64" else f"({num(e[1], env)} % 2 ^ {8 * WIDTH[e[2]]})"
    raise Outside(f"integer expression `{k}` outside the fragment")


def chain(e, env, leaf):
    """if c {A} else if c' {B} .. else { unreachable!() }"""
    if e[0] == "block" and not e[1] and e[2] is not None:
        e = e[2]
    if e[0] == "block" and len(e[1]) == 1 and e[2] is None and e[1][0][0] == "expr":
        e = e[1][0][1]
    if e[0] == "if" and e[3] is not None:
        c = e[1]
        if c[0] != "bin" or c[1] != "<":
            raise Outside("condition is not `x < bound`")
        return f"if {num(c[2], env)} < {num(c[3], env)} then {leaf(e[2])} else\n    {chain(e[3], env, leaf)}"
    if e[0] == "macro" and e[1] == "unreachable":
        return None
    raise Outside("chain shape")


def generate(g):
    from xlate import lean_header
    src = FC.src_of(g, REL)
    if not re.search(BE_VARINT, src, re.S):
        g.untranslated.append("VarintCodec: text of `be_varint` left the recognised (bit-level nom) shape")
    L = lean_header("GmQuic.Gen.VarintCodec")
    L[1:1] = ["import GmQuic.Model.Wire"]
    L += ["open GmQuic.Wire", ""]
    items = []

    def fix(term, dflt):
        return term.replace("None", dflt)
    try:
        body = FC.fn_body(src, r"impl<T: BufMut> WriteVarInt for T \{", r"fn put_varint\(&mut self, value: &VarInt\) \{", "put_varint")
        b = parse_block(body)
        if len(b[1]) == 2 and b[2] is None and b[1][1][0] == "expr":
            b = ("block", b[1][:1], b[1][1][1])
        if len(b[1]) != 1 or b[1][0] != ("let", ("pbind", "x"), ("field", ("path", ["value"]), "0")) or b[2] is None:
            raise Outside("put_varint is not `let x = value.0; if ..`")

        def leaf(blk):
            if blk[0] != "block" or len(blk[1]) != 1 or blk[2] is not None or blk[1][0][0] != "expr":
                raise Outside("put_varint branch is not a single put_uN")
            c = blk[1][0][1]
            if c[0] != "mcall" or c[1] != ("path", ["self"]) or c[2] not in ("put_u8", "put_u16", "put_u32", "put_u64") or len(c[3]) != 1:
                raise Outside("put_varint branch is not self.put_uN(..)")
            return f"beBytes {WIDTH[c[2][4:]]} {num(c[3][0], {'x': 'x'})}"
        t = chain(b[2], {"x": "x"}, leaf)
        L += [f"/-- {REL} `WriteVarInt::put_varint` (`[]` stands for the `unreachable!` arm, x ≥ 2^62) -/", "def put_varint (x : Nat) : Bytes :=", "  " + fix(t, "[]"), ""]
        items.append("put_varint")
        body = FC.fn_body(src, r"impl VarInt \{", r"pub fn encoding_size\(self\) -> usize \{", "VarInt::encoding_size")
        b = parse_block(body)
        if len(b[1]) != 1 or b[1][0] != ("let", ("pbind", "x"), ("field", ("path", ["self"]), "0")) or b[2] is None:
            raise Outside("encoding_size is not `let x = self.0; if ..`")

        def leaf2(blk):
            if blk[0] != "block" or blk[1] or blk[2] is None or blk[2][0] != "int":
                raise Outside("encoding_size branch is not a literal")
            return str(blk[2][1])
        t = chain(b[2], {"x": "x"}, leaf2)
        L += [f"/-- {REL} `VarInt::encoding_size` (`0` stands for the `unreachable!` arm) -/", "def varint_size (x : Nat) : Nat :=", "  " + fix(t, "0"), ""]
        items.append("varint_size")
    except Outside as ex:
        g.untranslated.append(f"VarintCodec: {ex}")
    L += ["end GmQuic.Gen.VarintCodec", ""]
    g.extra_items = items
    return "\n".join(L)


if __name__ == "__main__":
    from xlate import Gen
    g = Gen(sys.argv[1] if len(sys.argv) > 1 else "/repo")
    print(generate(g))
    print("UNTRANSLATED:", *g.untranslated, sep="\n  ", file=sys.stderr)
