"""C03 tables -> Gen/C03Tables.lean

* T3: `impl From<Error> for QuicError` of qbase/src/frame/error.rs (frame::Error variant -> ErrorKind name) and of
  qbase/src/param/error.rs (one kind for every variant);
* the sampling minimum of `be_payload` / `be_packet` and `MAX_CID_SIZE`;
* the frame dispatchers of qconnection/src/space/{initial,handshake,data}.rs: which `Frame::X` arms exist, with
  which guard, whether the arm body is empty, and what the `_ =>` arm does (`unreachable!` or `{}`);
* `read_plain_packet` (qconnection/src/space.rs): the loop shape the model mirrors, and whether a packet without
  frames is turned into `Error::NoFrames`.
Recognised shapes only; anything else is reported as untranslated (never guessed)."""
import re
NAME = "C03Tables"

FRAME_VARIANTS = ["Padding", "Ping", "Ack", "Close", "NewToken", "MaxData", "DataBlocked", "NewConnectionId",
                  "RetireConnectionId", "HandshakeDone", "PathChallenge", "PathResponse", "StreamCtl", "Stream",
                  "Crypto", "Datagram", "AddAddress", "RemoveAddress", "PunchMeNow", "PunchHello", "PunchDone"]
FERR = ["NoFrames", "IncompleteType", "InvalidType", "WrongType", "IncompleteFrame", "ParseError"]


def strip_comments(s):
    return re.sub(r"//[^\n]*", "", s)


def block_after(src, start):
    """text of the `{...}` block whose `{` is the first one at or after `start`"""
    i = src.index("{", start)
    depth, j = 0, i
    while True:
        if src[j] == "{":
            depth += 1
        elif src[j] == "}":
            depth -= 1
            if depth == 0:
                return src[i + 1:j]
        j += 1


def split_arms(body):
    """top-level `pattern => expr` arms of a match body"""
    arms, depth, cur = [], 0, ""
    i = 0
    while i < len(body):
        c = body[i]
        if c in "({[":
            depth += 1
        elif c in ")}]":
            depth -= 1
        cur += c
        if depth == 0 and (c == "," or c == "}"):
            # an arm ends at a top-level comma, or at the closing brace of a block body
            nxt = body[i + 1:].lstrip()
            if c == "," or not nxt.startswith(","):
                if "=>" in cur:
                    arms.append(cur.strip().rstrip(","))
                    cur = ""
            if c == "}" and nxt.startswith(","):
                pass
        i += 1
    if "=>" in cur:
        arms.append(cur.strip().rstrip(","))
    return arms


def dispatcher(g, rel):
    from xlate import read
    src = strip_comments(read(g.repo, rel))
    m = re.search(r"move \|frame: Frame,[^|]*\| match frame \{", src)
    if not m:
        raise ValueError(f"{rel}: frame dispatcher closure not found")
    body = block_after(src, m.end() - 1)
    rows, fall = [], None
    for arm in split_arms(body):
        pat, expr = arm.split("=>", 1)
        pat, expr = pat.strip(), expr.strip()
        cfgm = re.match(r"#\[cfg\(feature = \"(\w+)\"\)\]\s*", pat)
        feature = None
        if cfgm:
            feature = cfgm.group(1)
            pat = pat[cfgm.end():]
        if pat == "_":
            if expr.startswith("unreachable!"):
                fall = "unreachable"
            elif re.fullmatch(r"\{\s*\}", expr):
                fall = "ignore"
            else:
                raise ValueError(f"{rel}: unrecognised `_ =>` arm: {expr[:60]}")
            continue
        guard = None
        gm = re.match(r"(.*?)\s+if\s+(.*)$", pat, re.S)
        if gm:
            pat, guard = gm.group(1).strip(), " ".join(gm.group(2).split())
            if guard != "matches!(pty, Type::Short(_))":
                raise ValueError(f"{rel}: unrecognised guard: {guard}")
        empty = bool(re.fullmatch(r"\{\s*\}", expr))
        for alt in pat.split("|"):
            am = re.fullmatch(r"Frame::(\w+)\((?:[^()]|\([^()]*\))*\)", alt.strip())
            if not am or am.group(1) not in FRAME_VARIANTS:
                raise ValueError(f"{rel}: unrecognised arm pattern: {alt.strip()[:60]}")
            rows.append((am.group(1), guard is not None, empty, feature))
    if fall is None:
        raise ValueError(f"{rel}: no `_ =>` arm")
    return rows, fall


def generate(g):
    from xlate import lean_header, read
    lines = lean_header("GmQuic.Gen.C03")
    # ---- T3 frame error map
    fe = strip_comments(read(g.repo, "qbase/src/frame/error.rs"))
    m = re.search(r"impl From<Error> for QuicError \{\s*fn from\(e: Error\) -> Self \{\s*match e \{", fe)
    if not m:
        raise ValueError("frame/error.rs: From<Error> for QuicError not found")
    body = block_after(fe, m.end() - 1)
    fmap = {}
    for arm in split_arms(body):
        am = re.match(r"Error::(\w+)(?:\([^)]*\))?\s*=>\s*\{?\s*Self::(with_default_fty|new)\(\s*QuicErrorKind::(\w+)\s*,", arm)
        if not am:
            raise ValueError(f"frame/error.rs: unrecognised arm: {arm[:70]}")
        fmap[am.group(1)] = am.group(3)
    if sorted(fmap) != sorted(FERR):
        raise ValueError(f"frame/error.rs: variants {sorted(fmap)} != {sorted(FERR)}")
    lines.append("/-- `frame::Error` variants -/")
    lines.append("inductive FErr | " + " | ".join(v[0].lower() + v[1:] for v in FERR))
    lines.append("  deriving DecidableEq, Repr, Inhabited")
    lines.append("")
    lines.append("/-- qbase/src/frame/error.rs `impl From<Error> for QuicError`: the `ErrorKind` variant each frame error becomes -/")
    lines.append("def frameErrKind : FErr → String")
    for v in FERR:
        lines.append(f"  | .{v[0].lower() + v[1:]} => \"{fmap[v]}\"")
    lines.append("")
    # ---- param error map
    pe = strip_comments(read(g.repo, "qbase/src/param/error.rs"))
    m = re.search(r"impl From<Error> for QuicError \{\s*fn from\(e: Error\) -> Self \{\s*Self::new\(\s*QuicErrorKind::(\w+)\s*,", pe)
    if not m:
        raise ValueError("param/error.rs: From<Error> for QuicError is not the single `Self::new(QuicErrorKind::X, ..)` shape")
    lines.append("/-- qbase/src/param/error.rs `impl From<Error> for QuicError` (every variant) -/")
    lines.append(f"def paramErrKind : String := \"{m.group(1)}\"")
    lines.append("")
    g.extra_items = ["frameErrKind", "paramErrKind"]
    # ---- constants
    io = strip_comments(read(g.repo, "qbase/src/packet/io.rs"))
    m1 = re.search(r"let payload_len = payload\.len\(\);\s*if payload_len < (\d+) \{", io)
    m2 = re.search(r"Header::OneRtt\(header\) => \{\s*if remain\.len\(\) < (\d+) \{", io)
    if not m1 or not m2:
        raise ValueError("packet/io.rs: sampling minimum tests not found")
    lines.append("/-- qbase/src/packet/io.rs be_payload: `if payload_len < N` -/")
    lines.append(f"def minSampleLong : Nat := {int(m1.group(1))}")
    lines.append("/-- qbase/src/packet/io.rs be_packet, 1-RTT arm: `if remain.len() < N` -/")
    lines.append(f"def minSampleShort : Nat := {int(m2.group(1))}")
    cid = strip_comments(read(g.repo, "qbase/src/cid/connection_id.rs"))
    m3 = re.search(r"pub const MAX_CID_SIZE: usize = (\d+);", cid)
    m4 = re.search(r"if len > MAX_CID_SIZE \{\s*return Err\(nom::Err::Error\(", cid)
    if not m3 or not m4:
        raise ValueError("cid/connection_id.rs: MAX_CID_SIZE / its test not found")
    lines.append("/-- qbase/src/cid/connection_id.rs `MAX_CID_SIZE`, tested by `if len > MAX_CID_SIZE` -/")
    lines.append(f"def maxCidSize : Nat := {int(m3.group(1))}")
    route = strip_comments(read(g.repo, "qtraversal/src/route.rs"))
    m5 = re.search(r"PacketReader::new\(pkt, (\d+)\)", route)
    if not m5:
        raise ValueError("qtraversal/src/route.rs: PacketReader::new(pkt, N) not found")
    lines.append("/-- qtraversal/src/route.rs `PacketReader::new(pkt, N)` -/")
    lines.append(f"def deployedDcidLen : Nat := {int(m5.group(1))}")
    lines.append("")
    g.extra_items += ["minSampleLong", "minSampleShort", "maxCidSize", "deployedDcidLen"]
    # ---- dispatchers
    lines.append("/-- `Frame` enum variants as the dispatchers match on them -/")
    lines.append("inductive FVar | " + " | ".join(v[0].lower() + v[1:] for v in FRAME_VARIANTS))
    lines.append("  deriving DecidableEq, Repr, Inhabited")
    lines.append("")
    lines.append("/-- one match arm: variant, guarded by `matches!(pty, Type::Short(_))`, empty body `{}`, cargo feature it needs -/")
    lines.append("structure Arm where")
    lines.append("  v : FVar")
    lines.append("  shortOnly : Bool")
    lines.append("  emptyBody : Bool")
    lines.append("  feature : Option String")
    lines.append("  deriving DecidableEq, Repr")
    lines.append("")
    for name, rel in [("initial", "qconnection/src/space/initial.rs"), ("handshake", "qconnection/src/space/handshake.rs"),
                      ("data", "qconnection/src/space/data.rs")]:
        rows, fall = dispatcher(g, rel)
        lines.append(f"/-- {rel}: arms of the frame dispatcher, in order -/")
        lines.append(f"def {name}Arms : List Arm := [")
        def feat(ft):
            return 'some "' + ft + '"' if ft else "none"
        lines.append(",\n".join(
            "  ⟨." + v[0].lower() + v[1:] + ", " + str(gd).lower() + ", " + str(em).lower() + ", " + feat(ft) + "⟩"
            for v, gd, em, ft in rows))
        lines.append("]")
        lines.append(f"/-- {rel}: the `_ =>` arm is `unreachable!(..)` -/")
        lines.append(f"def {name}FallUnreachable : Bool := {'true' if fall == 'unreachable' else 'false'}")
        lines.append("")
        g.extra_items += [f"{name}Arms", f"{name}FallUnreachable"]
    # ---- read_plain_packet
    sp = strip_comments(read(g.repo, "qconnection/src/space.rs"))
    m = re.search(r"fn read_plain_packet<H>\(", sp)
    if not m:
        raise ValueError("space.rs: read_plain_packet not found")
    body = block_after(sp, sp.index("where", m.end()))
    if not re.search(r"let frame_reader = FrameReader::new\(packet\.body\(\), packet\.get_type\(\)\);\s*for frame_result in frame_reader \{\s*"
                     r"let \(frame, r#type\) = frame_result\.map_err\(QuicError::from\)\?;", body):
        raise ValueError("space.rs: read_plain_packet left the shape `for frame_result in frame_reader { let (..) = frame_result.map_err(QuicError::from)?; .. }`")
    lines.append("/-- qconnection/src/space.rs read_plain_packet: a packet without frames is refused with `Error::NoFrames` -/")
    lines.append(f"def readPlainRejectsEmpty : Bool := {'true' if 'NoFrames' in body else 'false'}")
    g.extra_items += ["readPlainRejectsEmpty"]
    lines += ["", "end GmQuic.Gen.C03", ""]
    return "\n".join(lines)
