"""A tokenizer and a recursive-descent parser for the small Rust fragment the T5 codec translator
(`gen_framecodec.py`) understands.  Anything it cannot parse raises `Outside` — the translator then
refuses the item; nothing is guessed.  (Not a plug-in: the file name does not start with `gen_`.)

AST (tuples):
  ("int", n) ("str", s) ("path", [seg..]) ("field", e, name) ("mcall", e, name, [args])
  ("call", f, [args]) ("bin", op, a, b) ("not", e) ("ref", e) ("deref", e) ("cast", e, ty)
  ("try", e) ("ret", e|None) ("tuple", [e..]) ("struct", [seg..], [(field, e)..])
  ("if", cond, block, block|None) ("iflet", pat, e, block, block|None) ("match", e, [(pat, e)..])
  ("closure", [pat..], e) ("block", [stmt..], tail|None) ("index", e, idx) ("range", lo|None, hi|None)
  ("macro", name, [args])
stmt: ("let", pat, e) ("expr", e) ("for", pat, e, block) ("while", e, block) ("assign", lhs, op, e) ("use",)
pat: ("pwild",) ("pbind", name) ("ptuple", [pat..]) ("pctor", [seg..], [pat..]|None) ("plit", n) ("por", [pat..])
"""
import re


class Outside(Exception):
    pass


TOK = re.compile(r"""
    (?P<ws>\s+|//[^\n]*|/\*.*?\*/)
  | (?P<num>0x[0-9a-fA-F_]+(?:u8|u16|u32|u64|u128|usize)?|0b[01_]+(?:u8|u16|u32|u64|u128|usize)?|\d[\d_]*(?:u8|u16|u32|u64|u128|usize)?)
  | (?P<life>'[a-z_]+\b(?!'))
  | (?P<id>[A-Za-z_][A-Za-z0-9_]*)
  | (?P<str>"(?:[^"\\]|\\.)*")
  | (?P<op>::|->|=>|==|!=|<<|<=|>=|&&|\|\||\.\.=|\.\.|\+=|-=|[-+*/%&|!<>=.,;:(){}\[\]?#@])
""", re.S | re.X)


def tokenize(src):
    out, i = [], 0
    while i < len(src):
        m = TOK.match(src, i)
        if not m:
            raise Outside(f"cannot tokenize at {src[i:i+20]!r}")
        i = m.end()
        k = m.lastgroup
        if k == "ws":
            continue
        out.append((k, m.group(k)))
    return out


def strip_comments(s):
    return re.sub(r"//[^\n]*", "", s)


def find_body(src, header_re, what, start=0):
    """text between the braces that follow the first match of header_re (which must end in `{`)"""
    m = re.compile(header_re, re.S).search(src, start)
    if not m:
        raise Outside(f"{what}: header not found")
    i = m.end() - 1
    assert src[i] == "{"
    depth, j = 0, i
    while j < len(src):
        if src[j] == "{":
            depth += 1
        elif src[j] == "}":
            depth -= 1
            if depth == 0:
                return src[i + 1:j], m
        j += 1
    raise Outside(f"{what}: unbalanced braces")


def lit_int(s):
    s = re.sub(r"(u8|u16|u32|u64|u128|usize)$", "", s.replace("_", ""))
    return int(s, 0)


BINPREC = {"||": 1, "&&": 2, "==": 3, "!=": 3, "<": 3, ">": 3, "<=": 3, ">=": 3, "|": 4, "&": 5, "<<": 5.5,
           "+": 6, "-": 6, "*": 7, "/": 7, "%": 7}


class Parser:
    def __init__(self, toks):
        self.t = toks
        self.i = 0

    # -- helpers
    def peek(self, k=0):
        return self.t[self.i + k] if self.i + k < len(self.t) else ("eof", "")

    def at(self, v, k=0):
        return self.peek(k)[1] == v and self.peek(k)[0] in ("op", "id")

    def eat(self, v):
        if not self.at(v):
            raise Outside(f"expected {v!r}, found {self.peek()[1]!r} (token {self.i})")
        self.i += 1

    def accept(self, v):
        if self.at(v):
            self.i += 1
            return True
        return False

    def ident(self):
        k, v = self.peek()
        if k != "id":
            raise Outside(f"expected identifier, found {v!r}")
        self.i += 1
        return v

    # -- types (only skipped / recorded as text)
    def ty(self):
        s = []
        if self.accept("&"):
            s.append("&")
            if self.peek()[0] == "life":
                self.i += 1
            self.accept("mut")
        if self.accept("["):
            inner = self.ty()
            if self.accept(";"):
                self.expr()
            self.eat("]")
            return "[" + inner + "]"
        if self.accept("("):
            parts = []
            while not self.at(")"):
                parts.append(self.ty())
                self.accept(",")
            self.eat(")")
            return "(" + ",".join(parts) + ")"
        s.append(self.ident())
        while True:
            if self.at("::"):
                self.i += 1
                if self.at("<"):
                    s.append(self.generics())
                else:
                    s.append("::" + self.ident())
            elif self.at("<"):
                s.append(self.generics())
            else:
                break
        return "".join(s)

    def generics(self):
        self.eat("<")
        parts = []
        while not self.at(">"):
            if self.peek()[0] == "life":
                self.i += 1
                parts.append("'_")
            else:
                parts.append(self.ty())
            self.accept(",")
        self.eat(">")
        return "<" + ",".join(parts) + ">"

    # -- patterns
    def pat(self):
        p = self.pat1()
        if self.at("|") :
            alts = [p]
            while self.accept("|"):
                alts.append(self.pat1())
            return ("por", alts)
        return p

    def pat1(self):
        k, v = self.peek()
        if v == "_" and k == "id":
            self.i += 1
            return ("pwild",)
        if k == "num":
            self.i += 1
            return ("plit", lit_int(v))
        if v == "&":
            self.i += 1
            return self.pat1()
        if v == "mut":
            self.i += 1
            return ("pbind", self.ident())
        if v == "(":
            self.i += 1
            ps = []
            while not self.at(")"):
                ps.append(self.pat())
                self.accept(",")
            self.eat(")")
            return ("ptuple", ps) if len(ps) != 1 else ps[0]
        if k == "id":
            segs = [self.ident()]
            while self.accept("::"):
                segs.append(self.ident())
            if self.accept("("):
                ps = []
                while not self.at(")"):
                    if self.accept(".."):
                        ps.append(("prest",))
                    else:
                        ps.append(self.pat())
                    self.accept(",")
                self.eat(")")
                return ("pctor", segs, ps)
            if len(segs) == 1 and segs[0][0].islower():
                return ("pbind", segs[0])
            return ("pctor", segs, None)
        raise Outside(f"pattern outside the fragment at {v!r}")

    # -- blocks / statements
    def block(self):
        self.eat("{")
        stmts, tail = [], None
        while not self.at("}"):
            if self.at("use"):
                while not self.at(";"):
                    self.i += 1
                self.eat(";")
                stmts.append(("use",))
                continue
            if self.at("let"):
                self.i += 1
                p = self.pat()
                if self.accept(":"):
                    self.ty()
                self.eat("=")
                e = self.expr()
                self.eat(";")
                stmts.append(("let", p, e))
                continue
            if self.at("for"):
                self.i += 1
                p = self.pat()
                self.eat("in")
                e = self.expr(nostruct=True)
                b = self.block()
                stmts.append(("for", p, e, b))
                continue
            if self.at("while"):
                self.i += 1
                c = self.expr(nostruct=True)
                b = self.block()
                stmts.append(("while", c, b))
                continue
            e = self.expr()
            if self.at("=") or self.at("+=") or self.at("-="):
                op = self.peek()[1]
                self.i += 1
                r = self.expr()
                self.eat(";")
                stmts.append(("assign", e, op, r))
                continue
            if self.accept(";"):
                stmts.append(("expr", e))
                continue
            if self.at("}"):
                tail = e
                break
            if e[0] in ("if", "iflet", "match", "block"):     # block-like expression statement
                stmts.append(("expr", e))
                continue
            raise Outside(f"statement outside the fragment near token {self.peek()[1]!r}")
        self.eat("}")
        return ("block", stmts, tail)

    # -- expressions
    def expr(self, nostruct=False, prec=0):
        lhs = self.unary(nostruct)
        while True:
            k, v = self.peek()
            if k == "op" and v in BINPREC and BINPREC[v] > prec:
                # `|` could start a closure only in prefix position, so here it is binary
                self.i += 1
                rhs = self.expr(nostruct, BINPREC[v])
                lhs = ("bin", v, lhs, rhs)
                continue
            if v == "as" and k == "id":
                self.i += 1
                lhs = ("cast", lhs, self.ty())
                continue
            break
        return lhs

    def unary(self, nostruct):
        if self.accept("&"):
            self.accept("mut")
            return ("ref", self.unary(nostruct))
        if self.accept("*"):
            return ("deref", self.unary(nostruct))
        if self.accept("!"):
            return ("not", self.unary(nostruct))
        return self.postfix(self.primary(nostruct), nostruct)

    def args(self):
        self.eat("(")
        a = []
        while not self.at(")"):
            a.append(self.expr())
            self.accept(",")
        self.eat(")")
        return a

    def postfix(self, e, nostruct):
        while True:
            if self.at("."):
                k2, v2 = self.peek(1)
                if k2 == "num":
                    self.i += 2
                    e = ("field", e, v2)
                    continue
                self.i += 1
                name = self.ident()
                if self.at("::"):
                    self.i += 1
                    self.generics()
                if self.at("("):
                    e = ("mcall", e, name, self.args())
                else:
                    e = ("field", e, name)
                continue
            if self.at("("):
                e = ("call", e, self.args())
                continue
            if self.at("?"):
                self.i += 1
                e = ("try", e)
                continue
            if self.at("["):
                self.i += 1
                if self.accept(".."):
                    idx = ("range", None, None if self.at("]") else self.expr())
                else:
                    idx = self.expr()
                    if self.accept(".."):
                        idx = ("range", idx, None if self.at("]") else self.expr())
                self.eat("]")
                e = ("index", e, idx)
                continue
            return e

    def primary(self, nostruct):
        k, v = self.peek()
        if k == "num":
            self.i += 1
            return ("int", lit_int(v))
        if k == "str":
            self.i += 1
            return ("str", v)
        if v == "(":
            self.i += 1
            es = []
            trailing = False
            while not self.at(")"):
                es.append(self.expr())
                trailing = self.accept(",")
            self.eat(")")
            if len(es) == 1 and not trailing:
                return es[0]
            return ("tuple", es)
        if v == "{":
            return self.block()
        if v == "if":
            self.i += 1
            if self.accept("let"):
                p = self.pat()
                self.eat("=")
                e = self.expr(nostruct=True)
                th = self.block()
                el = self.else_part()
                return ("iflet", p, e, th, el)
            c = self.expr(nostruct=True)
            th = self.block()
            el = self.else_part()
            return ("if", c, th, el)
        if v == "match":
            self.i += 1
            e = self.expr(nostruct=True)
            self.eat("{")
            arms = []
            while not self.at("}"):
                p = self.pat()
                self.eat("=>")
                b = self.expr()
                self.accept(",")
                arms.append((p, b))
            self.eat("}")
            return ("match", e, arms)
        if v == "return":
            self.i += 1
            if self.at(";") or self.at("}"):
                return ("ret", None)
            return ("ret", self.expr())
        if v == "move" and self.at("|", 1):
            self.i += 1
            return self.closure()
        if v == "|" and k == "op":
            return self.closure()
        if v == "||" and k == "op":
            self.i += 1
            return ("closure", [], self.expr())
        if k == "id":
            segs = [self.ident()]
            while self.at("::"):
                self.i += 1
                if self.at("<"):
                    self.generics()
                else:
                    segs.append(self.ident())
            if self.at("!") and self.peek(1)[1] in ("(", "["):
                self.i += 1
                close = ")" if self.at("(") else "]"
                self.i += 1
                a = []
                while not self.at(close):
                    a.append(self.expr())
                    self.accept(",")
                self.eat(close)
                return ("macro", segs[-1], a)
            if self.at("{") and not nostruct and segs[-1][0].isupper():
                self.i += 1
                fs = []
                while not self.at("}"):
                    f = self.ident()
                    if self.accept(":"):
                        fs.append((f, self.expr()))
                    else:
                        fs.append((f, ("path", [f])))
                    self.accept(",")
                self.eat("}")
                return ("struct", segs, fs)
            return ("path", segs)
        raise Outside(f"expression outside the fragment at {v!r}")

    def else_part(self):
        if not self.accept("else"):
            return None
        if self.at("if"):
            e = self.primary(False)
            return ("block", [], e)
        return self.block()

    def closure(self):
        self.eat("|")
        ps = []
        while not self.at("|"):
            p = self.pat1()
            if self.accept(":"):
                self.ty()
            ps.append(p)
            self.accept(",")
        self.eat("|")
        return ("closure", ps, self.expr())


def parse_block(text):
    """parse `text` (the inside of a function body) as a block"""
    p = Parser(tokenize("{" + text + "}"))
    b = p.block()
    if p.peek()[0] != "eof":
        raise Outside("trailing tokens after the function body")
    return b


def struct_fields(src, name):
    """[(field, type-text)] of `pub struct <name> { .. }`; [] for a unit struct; raises when not found"""
    if re.search(r"pub struct " + name + r"\s*;", src):
        return []
    body, _ = find_body(src, r"pub struct " + name + r"(?:<[^>]*>)?\s*\{", f"struct {name}")
    body = re.sub(r"#\[[^\]]*\]", "", strip_comments(body))
    out = []
    for part in [x.strip() for x in body.split(",\n") if x.strip()]:
        part = part.rstrip(",").strip()
        m = re.fullmatch(r"(?:pub(?:\([a-z]+\))?\s+)?(\w+)\s*:\s*(.+)", part, re.S)
        if not m:
            raise Outside(f"struct {name}: field outside the fragment: {part!r}")
        out.append((m.group(1), " ".join(m.group(2).split())))
    return out
