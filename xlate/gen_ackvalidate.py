"""C04: shape of `AckFrame::validate` (qbase/src/frame/ack.rs) -> Gen/AckValidate.lean

`Model/Cost.lean` `validateWalk` transliterates the STEPWISE walk
    smallest = largest.checked_sub(first_range)?;  for (gap, range): smallest.checked_sub(gap)?.checked_sub(2)?.checked_sub(range)?
and `Props/C04/Ack.lean` `validate_no_overflow` proves that this algorithm never computes a value above `largest`
(no addition at all, so no u64 overflow for any field values).  That theorem is about the algorithm; this plug-in ties
the algorithm to the source: the body of `validate` must be exactly that shape — every arithmetic step a `checked_sub`,
no `+`, `*`, `<<`, `fold`, `sum`, `wrapping_*`, `as` casts.  Anything else is reported as untranslated (never guessed):
the generated file is then missing and `./check C04` reports a VIOLATION."""
import re
NAME = "AckValidate"
REL = "qbase/src/frame/ack.rs"


def strip_comments(s):
    return re.sub(r"//[^\n]*", "", s)


def generate(g):
    from xlate import lean_header, read
    src = read(g.repo, REL)
    m = re.search(r"pub fn validate\(&self\) -> Result<\(\), crate::error::QuicError> \{(.*?)\n    \}\n", src, re.S)
    if not m:
        g.untranslated.append(f"AckFrame::validate not found in {REL} (fix-C04-ack-validate)")
        return None
    body = strip_comments(m.group(1))
    # string literals cannot hide arithmetic
    code = re.sub(r'"[^"\n]*"', '""', body)
    flat = re.sub(r"\s+", "", code)
    walk = (r"letmutsmallest=self\.largest\.into_u64\(\)\.checked_sub\(self\.first_range\.into_u64\(\)\)\.ok_or_else\(malformed\)\?;"
            r"for\(gap,range\)in&self\.ranges\{smallest=smallest\.checked_sub\(gap\.into_u64\(\)\)"
            r"\.and_then\(\|n\|n\.checked_sub\(2\)\)\.and_then\(\|n\|n\.checked_sub\(range\.into_u64\(\)\)\)\.ok_or_else\(malformed\)\?;\}Ok\(\(\)\)$")
    if not re.search(walk, flat):
        g.untranslated.append("AckFrame::validate is no longer the stepwise checked_sub walk "
                              "(largest - first_range, then - gap - 2 - range per range, each step checked): "
                              "validate_no_overflow (Props/C04/Ack.lean) is about that algorithm")
    rest = re.sub(walk, "", flat)
    for tok in ["+", "*", "<<", "wrapping_", "saturating_", "fold(", "sum(", "sum::", " as ", "unchecked", "overflowing_"]:
        if tok.strip() in rest:
            g.untranslated.append(f"AckFrame::validate: unexpected arithmetic `{tok.strip()}` outside the recognised walk")
    kind = re.search(r"ErrorKind::(\w+)", body)
    if not kind:
        g.untranslated.append("AckFrame::validate: error kind not found")
    if g.untranslated:
        return None
    lines = lean_header()
    lines.append(f"/-- {REL} `AckFrame::validate`: recognised shape -/")
    lines.append('def ackValidateShape : String := "stepwise_checked_sub"')
    lines.append(f"/-- {REL} `AckFrame::validate`: `ErrorKind::{kind.group(1)}` -/")
    lines.append(f'def ackValidateErrKind : String := "{kind.group(1)}"')
    lines += ["", "end GmQuic.Gen", ""]
    return "\n".join(lines)
