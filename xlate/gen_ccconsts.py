"""C13: literal constants of loss detection / NewReno -> Gen/CcConsts.lean

Every pattern must match the source text; a source that leaves the shape is reported as untranslated."""
NAME = "CcConsts"


def generate(g):
    from xlate import lean_header
    cc = "qcongestion/src/congestion.rs"
    pk = "qcongestion/src/packets.rs"
    rtt = "qcongestion/src/rtt.rs"
    nr = "qcongestion/src/algorithm/new_reno.rs"
    g.const("packetThreshold", cc, r"const PACKET_THRESHOLD: usize = (\d+);")
    g.const("persistentLossThreshold", pk, r"const PERSISTENT_LOSS_THRESHOLD: usize = (\d+);")
    g.const("granularityMs", rtt, r"const GRANULARITY: Duration = Duration::from_millis\((\d+)\);")
    g.const("rttvarFactor", rtt, r"std::cmp::max\((\d+) \* self\.rttvar, GRANULARITY\)")
    g.const("maxPtoCount", cc, r"if pto_count > (\d+) \{\s*return Err\(TooManyPtos\(pto_count\)\);")
    g.const("minWindowDatagrams", nr, r"self\.congestion_window = self\.ssthresh\.max\((\d+) \* self\.max_datagram_size\(\)\);\s*// A packet")
    g.const("minWindowDatagramsPersistent", nr, r"self\.congestion_window = self\.ssthresh\.max\((\d+) \* self\.max_datagram_size\(\)\);\s*self\.congestion_recovery_start_time = None;")
    g.const("persistentShift", nr, r"self\.ssthresh = self\.congestion_window >> (\d+);")
    g.const("initWindowDatagrams", nr, r"let initial_window = \(mtu \* (\d+)\)\.min\(\(mtu \* \d+\)\.max\(\d+\)\);")
    g.const("initWindowMinDatagrams", nr, r"let initial_window = \(mtu \* \d+\)\.min\(\(mtu \* (\d+)\)\.max\(\d+\)\);")
    g.const("initWindowBytes", nr, r"let initial_window = \(mtu \* \d+\)\.min\(\(mtu \* \d+\)\.max\((\d+)\)\);")
    lines = lean_header()
    for name, v, srcinfo in g.items:
        lines.append(f"/-- {srcinfo} -/")
        lines.append(f"def {name} : Nat := {v}")
    lines += ["", "end GmQuic.Gen", ""]
    return "\n".join(lines)
