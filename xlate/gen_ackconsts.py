"""C10: literals of the capacity arithmetic of `RcvdJournal::gen_ack_frame_util` -> Gen/AckConsts.lean

Read from qrecovery/src/journal/rcvd.rs.  `range_count_size_increment` must be a `match` with exactly three guarded arms
`len if len == <int expr> => <int>,` and a default arm `_ => <int>,`; their boundaries and increments are emitted and USED
by the model (`Model/RcvdJournal.lean` `rangeCountIncr`), so that `ack_fits` is re-proved against the boundaries the source
has now.  The other literals of the arithmetic (`min_len`, the fold's initial state, the `- 1` corrections, the `+ 1` steps,
the shape of `size`, the three capacity comparisons) are emitted / shape-checked and pinned by `gen_ack_literals_match_source`
(Props/C10/Recv.lean).  A source that leaves these shapes is reported as untranslated (never guessed)."""
import re
NAME = "AckConsts"
REL = "qrecovery/src/journal/rcvd.rs"


def generate(g):
    from xlate import lean_header, read, rust_int
    src = read(g.repo, REL)
    items = []   # (name, value, source text)

    def need(name, pattern, count=1):
        ms = list(re.finditer(pattern, src, re.S))
        if len(ms) != count:
            g.untranslated.append(f"{name}: expected {count} occurrence(s) of /{pattern}/ in {REL}, found {len(ms)}")
            return None
        return ms

    # --- range_count_size_increment: the whole body must have the recognised shape
    cm = r"(?:\s*//[^\n]*\n)*\s*"      # comment lines between arms
    arm = r"len if len == ([^=>\n]+?) => (\d+),[^\n]*\n"
    body = need("range_count_size_increment",
                r"fn range_count_size_increment\(range_count: usize\) -> usize \{\s*match range_count \{" + cm + arm + cm + arm + cm + arm
                + cm + r"_ => (\d+),\s*\}\s*\}")
    if body:
        m = body[0]
        try:
            for i in range(3):
                items.append((f"ackIncrAt{i+1}", rust_int(m.group(1 + 2 * i)), f"`len if len == {m.group(1 + 2*i).strip()} => {m.group(2 + 2*i)}`"))
                items.append((f"ackIncrBy{i+1}", int(m.group(2 + 2 * i)), f"`len if len == {m.group(1 + 2*i).strip()} => {m.group(2 + 2*i)}`"))
            items.append(("ackIncrDefault", int(m.group(7)), f"`_ => {m.group(7)}`"))
        except Exception as ex:
            g.untranslated.append(f"range_count_size_increment: {ex}")
    # both call sites: count of ranges pushed so far
    need("incr call (fold)", r"let range_count = ranges\.len\(\);")
    need("size formula (fold)", r"let size = range_count_size_increment\(range_count\)\s*\+ gap\.encoding_size\(\)\s*\+ ack\.encoding_size\(\);")
    need("size formula (last range)", r"let size = range_count_size_increment\(ranges\.len\(\)\)\s*\+ gap\.encoding_size\(\)\s*\+ ack\.encoding_size\(\);")

    # --- min_len
    ms = need("min_len", r"let min_len =\s*(\d+) \+ largest\.encoding_size\(\) \+ delay\.encoding_size\(\) \+ first_range\.encoding_size\(\) \+ (\d+);")
    if ms:
        items.append(("ackMinLenType", int(ms[0].group(1)), "`let min_len = <N> + largest.encoding_size() + …`"))
        items.append(("ackMinLenCount", int(ms[0].group(2)), "`… + first_range.encoding_size() + <N>;`"))
    need("capacity < min_len", r"if capacity < min_len \{\s*return Err\(Signals::CONGESTION\);\s*\}\s*capacity -= min_len;")
    ms = need("first_range", r"first_range = first_range\.saturating_sub\((\d+)\);")
    if ms:
        items.append(("ackFirstSub", int(ms[0].group(1)), "`first_range.saturating_sub(<N>)`"))
    # --- the fold
    ms = need("fold init", r"\.try_fold\((?:\s*//[^\n]*\n)*\s*\((\d+), (\d+), false\),")
    if ms:
        items.append(("ackFoldGap0", int(ms[0].group(1)), "`try_fold((<gap>, <ack>, false), …)`"))
        items.append(("ackFoldAck0", int(ms[0].group(2)), "`try_fold((<gap>, <ack>, false), …)`"))
    ms = need("gap - 1", r"let gap = VarInt::from_u32\(gap - (\d+)\);", 2)
    if ms:
        if ms[0].group(1) != ms[1].group(1):
            g.untranslated.append("gap correction differs between the fold and the last range")
        items.append(("ackGapSub", int(ms[0].group(1)), "`VarInt::from_u32(gap - <N>)` (both sites)"))
    ms = need("ack - 1", r"let ack = VarInt::from_u32\(ack - (\d+)\);", 2)
    if ms:
        if ms[0].group(1) != ms[1].group(1):
            g.untranslated.append("ack correction differs between the fold and the last range")
        items.append(("ackAckSub", int(ms[0].group(1)), "`VarInt::from_u32(ack - <N>)` (both sites)"))
    need("break test", r"if capacity < size \{(?:\s*//[^\n]*\n)*\s*return Break\(\(0, 0, false\)\);\s*\}\s*capacity -= size;\s*ranges\.push\(\(gap, ack\)\);")
    ms = need("new range", r"Continue\(\((\d+), (\d+), state\.track_packet_in_ack_frame\(pn\)\)\)")
    if ms:
        items.append(("ackNewGap", int(ms[0].group(1)), "`Continue((<gap>, <ack>, …))` after a push"))
        items.append(("ackNewAck", int(ms[0].group(2)), "`Continue((<gap>, <ack>, …))` after a push"))
    ms = need("ack step", r"Continue\(\(gap, ack \+ (\d+), state\.track_packet_in_ack_frame\(pn\)\)\)")
    if ms:
        items.append(("ackAckStep", int(ms[0].group(1)), "`Continue((gap, ack + <N>, …))`"))
    ms = need("gap step", r"Continue\(\(gap \+ (\d+), ack, state\.track_packet_in_ack_frame\(pn\)\)\)")
    if ms:
        items.append(("ackGapStep", int(ms[0].group(1)), "`Continue((gap + <N>, ack, …))`"))
    # --- last range: `>` (1 spare byte needed, known finding) or `>=` (0)
    ms = need("last range test", r"if last_is_acked \{.*?if capacity (>=|>) size \{(?:\s*//[^\n]*\n)*\s*ranges\.push\(\(gap, ack\)\);")
    if ms:
        items.append(("ackLastSpare", 1 if ms[0].group(1) == ">" else 0, f"`if capacity {ms[0].group(1)} size` (last range)"))
    if g.untranslated:
        return None
    g.extra_items = [n for n, _, _ in items]
    lines = lean_header()
    for name, v, srcinfo in items:
        lines.append(f"/-- {REL}: {srcinfo} -/")
        lines.append(f"def {name} : Nat := {v}")
    lines += ["", "end GmQuic.Gen", ""]
    return "\n".join(lines)
