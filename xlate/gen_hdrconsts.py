"""C05: bit constants of the packet-type byte and the long-header version numbers -> Gen/HdrConsts.lean

qbase/src/packet/type.rs, type/long.rs, type/long/v1.rs, type/short.rs, signal.rs.  Every pattern must
match the source text; a source that leaves the shape is reported as untranslated."""
NAME = "HdrConsts"


def generate(g):
    from xlate import lean_header
    ty = "qbase/src/packet/type.rs"
    lg = "qbase/src/packet/type/long.rs"
    v1 = "qbase/src/packet/type/long/v1.rs"
    sh = "qbase/src/packet/type/short.rs"
    sg = "qbase/src/packet/signal.rs"
    g.const("headerFormMask", ty, r"const HEADER_FORM_MASK: u8 = (\w+);")
    g.const("fixedBit", ty, r"const FIXED_BIT: u8 = (\w+);")
    g.const("shortTypeSize", ty, r"Type::Short\(_\) => (\d+),")
    g.const("longTypeSize", ty, r"Type::Long\(_\) => (\d+),")
    g.const("longHeaderBit", lg, r"const LONG_HEADER_BIT: u8 = (\w+);")
    g.const("vnVersion", lg, r"match version \{\s*(\d+) => Ok\(\(remain, Type::VersionNegotiation\)\),")
    g.const("v1Version", lg, r"(\d+) => Ok\(\(\s*remain,\s*Type::V1\(Version::<1, v1::Type>\(")
    g.const("vnVersionWritten", lg, r"Type::VersionNegotiation => \{\s*self\.put_u8\(LONG_HEADER_BIT\);\s*self\.put_u32\((\d+)\);")
    g.const("v1VersionWritten", lg, r"self\.put_u8\(LONG_HEADER_BIT \| FIXED_BIT \| ty\);\s*self\.put_u32\((\d+)\);")
    g.const("longPacketTypeMask", v1, r"const LONG_PACKET_TYPE_MASK: u8 = (\w+);")
    g.const("initialPacketType", v1, r"const INITIAL_PACKET_TYPE: u8 = (\w+);")
    g.const("zeroRttPacketType", v1, r"const ZERO_RTT_PACKET_TYPE: u8 = (\w+);")
    g.const("handshakePacketType", v1, r"const HANDSHAKE_PACKET_TYPE: u8 = (\w+);")
    g.const("retryPacketType", v1, r"const RETRY_PACKET_TYPE: u8 = (\w+);")
    g.const("shortHeaderBit", sh, r"const SHORT_HEADER_BIT: u8 = (\w+);")
    g.const("spinBit", sg, r"const SPIN_BIT: u8 = (\w+);")
    # shape anchors (no value): the writer ORs exactly these three, the reader tests exactly these masks
    import re
    from xlate import read
    for rel, pat in ((sh, r"SHORT_HEADER_BIT \| super::FIXED_BIT \| one_rtt\.0\.value\(\)"),
                     (ty, r"if ty & HEADER_FORM_MASK == 0 \{\s*Ok\(\(remain, Type::Short\(short::OneRtt::from\(ty\)\)\)\)"),
                     (v1, r"if value & FIXED_BIT == 0 \{\s*return Err\(Error::InvalidFixedBit\);\s*\}\s*match value & LONG_PACKET_TYPE_MASK \{")):
        if not re.search(pat, read(g.repo, rel), re.S):
            g.untranslated.append(f"HdrConsts: shape anchor not found in {rel}: {pat[:50]}")
    lines = lean_header()
    for name, v, srcinfo in g.items:
        lines.append(f"/-- {srcinfo} -/")
        lines.append(f"def {name} : Nat := {v}")
    lines += ["", "end GmQuic.Gen", ""]
    return "\n".join(lines)
