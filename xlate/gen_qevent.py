"""C20: `#[derive(Serialize, Deserialize)]` items of qevent/src/** -> Gen/QEvent.lean (one `Schema` per derived type).

Reads the Rust source text (comments stripped), finds every struct / enum whose derive list names Serialize or
Deserialize, parses the serde / serde_with attributes of the container, its fields and variants and writes the
`GmQuic.Model.Json.Schema` that serde's derive implements for it.  Restricted fragment: every attribute, field
type or enum representation it does not know makes the TYPE *uncovered* (listed with the reason in the generated
`uncovered` table and counted) — it never guesses; types that depend on an uncovered type are uncovered too.
Hand-written `impl Serialize` / `impl Deserialize` are recognised by their exact source shape only (table MANUAL).
A syntax it cannot parse at all is reported through `g.untranslated` (check fails).
Side output: .build/c20_schema.json (same table, for the type-directed generator of harness20).
"""
import json, os, re, glob

NAME = "QEvent"

INT = {"u8": (0, 2**8 - 1), "u16": (0, 2**16 - 1), "u32": (0, 2**32 - 1), "u64": (0, 2**64 - 1), "usize": (0, 2**64 - 1),
       "i8": (-2**7, 2**7 - 1), "i16": (-2**15, 2**15 - 1), "i32": (-2**31, 2**31 - 1), "i64": (-2**63, 2**63 - 1)}


class Uncovered(Exception):
    pass


def strip_comments(src):
    out, i, n = [], 0, len(src)
    while i < n:
        c = src[i]
        if c == '"':
            j = i + 1
            while j < n and src[j] != '"':
                j += 2 if src[j] == "\\" else 1
            out.append(src[i:j + 1]); i = j + 1
        elif c == "r" and src.startswith('r#"', i):
            j = src.index('"#', i + 3)
            out.append('"' + src[i + 3:j].replace("\\", "\\\\").replace('"', '\\"') + '"'); i = j + 2
        elif c == "'" and i + 2 < n and (src[i + 2] == "'" or (src[i + 1] == "\\" and src.find("'", i + 2) in (i + 3, i + 4))):
            j = src.index("'", i + 2); out.append(src[i:j + 1]); i = j + 1
        elif src.startswith("//", i):
            j = src.find("\n", i); j = n if j < 0 else j; i = j
        elif src.startswith("/*", i):
            j = src.index("*/", i + 2); i = j + 2
        else:
            out.append(c); i += 1
    return "".join(out)


def balanced(src, i, open_c, close_c):
    """src[i] == open_c; returns index just after the matching close (strings skipped)"""
    assert src[i] == open_c, (src[i:i + 20], open_c)
    d, n = 0, len(src)
    while i < n:
        c = src[i]
        if c == '"':
            i += 1
            while src[i] != '"':
                i += 2 if src[i] == "\\" else 1
        elif c == open_c:
            d += 1
        elif c == close_c:
            d -= 1
            if d == 0:
                return i + 1
        i += 1
    raise ValueError("unbalanced")


def split_top(s, sep=","):
    parts, d, cur, i = [], 0, [], 0
    while i < len(s):
        c = s[i]
        if c == '"':
            j = i + 1
            while s[j] != '"':
                j += 2 if s[j] == "\\" else 1
            cur.append(s[i:j + 1]); i = j + 1; continue
        if c in "([{<":
            d += 1
        elif c in ")]}>":
            if not (c == ">" and i > 0 and s[i - 1] in "-="):
                d -= 1
        if c == sep and d == 0:
            parts.append("".join(cur)); cur = []
        else:
            cur.append(c)
        i += 1
    if "".join(cur).strip():
        parts.append("".join(cur))
    return [p.strip() for p in parts]


def read_attrs(src, i):
    """consecutive #[...] groups starting at i (after whitespace) -> (list of attr texts, index after)"""
    attrs = []
    while True:
        m = re.compile(r"\s*#\[").match(src, i)
        if not m:
            return attrs, i
        j = balanced(src, m.end() - 1, "[", "]")
        attrs.append(src[m.end():j - 1].strip()); i = j


def parse_serde_args(attrs):
    """-> dict of serde(...) arguments, plus flags skip_none / serde_as / as=..."""
    d = {}
    seen_derive = False
    for a in attrs:
        a1 = " ".join(a.split())
        if a1.startswith("derive("):
            seen_derive = True
        if a1.startswith("serde_with::skip_serializing_none"):
            # the attribute macro rewrites the fields for the derives that come AFTER it; placed after
            # `#[derive(Serialize)]` it has no effect on the generated impl (None is written as null)
            if not seen_derive:
                d["skip_none"] = True
            else:
                d["skip_none_ineffective"] = True
        elif a1.startswith("serde_with::serde_as"):
            d["serde_as_container"] = True
        elif a1.startswith("serde_as("):
            m = re.fullmatch(r'serde_as\(\s*as\s*=\s*"([^"]+)"\s*\)', a1)
            if not m:
                raise Uncovered(f"serde_as attribute `{a1}`")
            d["as"] = m.group(1)
        elif a1.startswith("serde("):
            for part in split_top(a1[6:-1]):
                m = re.fullmatch(r'(\w+)\s*=\s*"((?:[^"\\]|\\.)*)"', part)
                if m:
                    d[m.group(1)] = m.group(2)
                elif re.fullmatch(r"\w+", part):
                    d[part] = True
                else:
                    raise Uncovered(f"serde attribute `{part}`")
        elif a1.startswith("serialize_always"):
            d["serialize_always"] = True
    return d


def rename_variant(name, rule):
    if rule is None or rule == "PascalCase":
        return name
    if rule == "lowercase":
        return name.lower()
    if rule == "UPPERCASE":
        return name.upper()
    snake = "".join(("_" if (ch.isupper() and i > 0) else "") + ch.lower() for i, ch in enumerate(name))
    if rule == "snake_case":
        return snake
    if rule == "SCREAMING_SNAKE_CASE":
        return snake.upper()
    if rule == "kebab-case":
        return snake.replace("_", "-")
    if rule == "SCREAMING-KEBAB-CASE":
        return snake.upper().replace("_", "-")
    if rule == "camelCase":
        return name[:1].lower() + name[1:]
    raise Uncovered(f"rename_all = {rule}")


def rename_field(name, rule):
    if rule is None or rule == "snake_case":
        return name
    if rule == "lowercase":
        return name
    if rule == "UPPERCASE" or rule == "SCREAMING_SNAKE_CASE":
        return name.upper()
    if rule == "kebab-case":
        return name.replace("_", "-")
    if rule in ("camelCase", "PascalCase"):
        parts = name.split("_")
        s = "".join(p[:1].upper() + p[1:] for p in parts)
        return s if rule == "PascalCase" else s[:1].lower() + s[1:]
    raise Uncovered(f"rename_all = {rule}")


CONTAINER_OK = {"try_from", "rename_all", "tag", "content", "untagged", "transparent", "default", "skip_none", "skip_none_ineffective", "serde_as_container"}
FIELD_OK = {"rename", "default", "skip_serializing_if", "flatten", "as", "serialize_always"}
VARIANT_OK = {"rename", "untagged"}

# hand-written impls: (module, type) -> (regexes that must all match the module's source, schema json, note)
MANUAL = {
    ("quic", "QuicVersion"): ([r'struct Helper\(#\[serde_as\(as = "serde_with::hex::Hex"\)\] \[u8; 4\]\);\s*Helper\(self\.0\.to_be_bytes\(\)\)\.serialize\(serializer\)',
                               r'struct Helper\(#\[serde_as\(as = "serde_with::hex::Hex"\)\] \[u8; 4\]\);\s*Helper::deserialize\(deserializer\)\.map\(\|b\| Self\(u32::from_be_bytes\(b\.0\)\)\)'],
                              {"k": "hex", "len": 4}, "u32 as 4 big-endian bytes in hex"),
    ("quic", "ConnectionID"): ([r"struct Helper<'b>\(#\[serde_as\(as = \"serde_with::hex::Hex\"\)\] &'b \[u8\]\);\s*Helper\(self\.0\.as_ref\(\)\)\.serialize\(serializer\)",
                                r'struct Helper\(#\[serde_as\(as = "serde_with::hex::Hex"\)\] Vec<u8>\);\s*let bytes = Helper::deserialize\(deserializer\)\?\.0;\s*if bytes\.len\(\) > qbase::cid::MAX_CID_SIZE'],
                               {"k": "hex", "len": None, "max": 20}, "connection id bytes in hex (at most MAX_CID_SIZE)"),
    ("quic", "CryptoError"): ([r'write!\(f, "crypto_error_0x1\{:02x\}", self\.0\)',
                               r'impl Serialize for CryptoError \{.*?serializer\.serialize_str\(&self\.to_string\(\)\)',
                               r'let string = String::deserialize\(deserializer\)\?;\s*string\.strip_prefix\("crypto_error_0x1"\)\.map_or_else\('],
                              {"k": "hex", "len": 1, "pfx": "crypto_error_0x1"},
                              "exactly the 256 strings crypto_error_0x1XX that Display prints (the hand-written Deserialize also accepts upper-case / 1-digit / '+' forms of the same numbers)"),
    ("legacy::quic", "CryptoError"): ([r'impl Serialize for CryptoError \{.*?serializer\.serialize_str\(&format!\("crypto_error_0x1\{:02x\}", self\.0\)\)',
                                       r'let string = String::deserialize\(deserializer\)\?;\s*string\.strip_prefix\("crypto_error_0x1"\)\.map_or_else\('],
                                      {"k": "hex", "len": 1, "pfx": "crypto_error_0x1"}, "as quic::CryptoError"),
    ("legacy::quic", "StreamDataLocation"): ([r'StreamDataLocation::User => serializer\.serialize_str\("user"\), StreamDataLocation::Application => serializer\.serialize_str\("application"\), StreamDataLocation::Transport => serializer\.serialize_str\("transport"\), StreamDataLocation::Network => serializer\.serialize_str\("network"\), StreamDataLocation::Other\(s\) => serializer\.serialize_str\(s\),',
                                              r'match String::deserialize\(deserializer\)\? \{ s if s == "user" => Ok\(StreamDataLocation::User\), s if s == "application" => Ok\(StreamDataLocation::Application\), s if s == "transport" => Ok\(StreamDataLocation::Transport\), s if s == "network" => Ok\(StreamDataLocation::Network\), s => Ok\(StreamDataLocation::Other\(s\)\), \}'],
                                             {"k": "untagged", "alts": [{"name": "", "s": {"k": "unitEnum", "names": ["user", "application", "transport", "network"]}}, {"name": "Other", "s": {"k": "str"}}]},
                                             "four fixed strings, any other string is Other(s) (= unit variants + untagged catch-all)"),
}

# `#[serde(try_from = "U")]`: (module, type) -> (U, regexes the module source must match, guard name, Lean predicate on the JSON read)
TRY_FROM = {
    ("", "ReferenceTime"): ("UncheckedReferenceTime",
        [r'impl TryFrom<UncheckedReferenceTime> for ReferenceTime \{ type Error = &\'static str; fn try_from\(value: UncheckedReferenceTime\) -> Result<Self, Self::Error> \{ if value\.clock_type == TimeClockType::Monotaonic && value\.epoch != TimeEpoch::Unknow \{ return Err\(',
         r'Ok\(ReferenceTime \{ clock_type: value\.clock_type, epoch: value\.epoch, wall_clock_time: value\.wall_clock_time, \}\)'],
        "reference_time",
        '(fun j => match lookup "clock_type" (objKvs j), lookup "epoch" (objKvs j) with | some (.str "monotaonic"), some (.str "Unknow") => true | some (.str "monotaonic"), _ => false | _, _ => true)'),
}


class Item:
    pass


def find_items(src, module, relfile):
    items, i = [], 0
    pat = re.compile(r"#\[")
    while True:
        m = pat.search(src, i)
        if not m:
            break
        attrs, j = read_attrs(src, m.start())
        m2 = re.compile(r"\s*(?:pub(?:\([^)]*\))?\s+)?(struct|enum)\s+(\w+)\s*").match(src, j)
        if not m2:
            i = max(j, m.end())
            continue
        kind, name = m2.group(1), m2.group(2)
        k = m2.end()
        generics = None
        if src[k] == "<":
            e = balanced_angle(src, k); generics = src[k:e]; k = e
            k = re.compile(r"\s*").match(src, k).end()
        body, tuple_body = None, None
        if src[k] == "{":
            e = balanced(src, k, "{", "}"); body = src[k + 1:e - 1]
        elif src[k] == "(":
            e = balanced(src, k, "(", ")"); tuple_body = src[k + 1:e - 1]
        elif src[k] == ";":
            e = k + 1
        else:
            raise ValueError(f"{relfile}: cannot parse item {name} at `{src[k:k+30]}`")
        it = Item()
        it.kind, it.name, it.attrs, it.generics, it.body, it.tuple_body = kind, name, attrs, generics, body, tuple_body
        it.module, it.file = module, relfile
        it.nested = src.rfind("\n", 0, m.start()) >= 0 and src[src.rfind("\n", 0, m.start()) + 1:m.start()].strip() == "" and (m.start() - src.rfind("\n", 0, m.start()) - 1) > 0
        derives = []
        for a in attrs:
            if a.startswith("derive("):
                derives += [x.strip().split("::")[-1] for x in a[7:-1].split(",")]
        it.derives = derives
        items.append(it)
        i = e
    return items


def balanced_angle(src, i):
    d = 0
    while True:
        if src[i] == "<":
            d += 1
        elif src[i] == ">" and src[i - 1] != "-":
            d -= 1
            if d == 0:
                return i + 1
        i += 1


def parse_named_fields(body):
    """`attrs vis name: Type, …` -> [(attrs, name, type)]"""
    fields = []
    for part in split_top(body):
        if not part:
            continue
        attrs, j = read_attrs(part, 0)
        rest = part[j:].strip()
        m = re.fullmatch(r"(?:pub(?:\([^)]*\))?\s+)?(r#)?(\w+)\s*:\s*(.+)", rest, re.S)
        if not m:
            raise ValueError(f"cannot parse field `{rest[:60]}`")
        fields.append((attrs, m.group(2), " ".join(m.group(3).split())))
    return fields


def generate(g):
    from xlate import lean_header, ROOT
    base = os.path.join(g.repo, "qevent", "src")
    files = sorted(glob.glob(os.path.join(base, "**", "*.rs"), recursive=True))
    modsrc, items, uses = {}, [], {}
    for f in files:
        rel = os.path.relpath(f, base)
        module = rel[:-3].replace(os.sep, "::")
        if module == "lib":
            module = ""
        src = strip_comments(open(f).read())
        modsrc[module] = src
        try:
            items += find_items(src, module, "qevent/src/" + rel)
        except Exception as ex:
            g.untranslated.append(f"qevent/src/{rel}: {type(ex).__name__}: {ex}")
        # use-imports: name -> module
        u = {}
        for m in re.finditer(r"\buse\s+((?:crate|super|self)(?:::\w+)*)::(\{[^;]*\}|\w+)\s*;", src):
            prefix, tail = m.group(1), m.group(2)
            segs = prefix.split("::")
            if segs[0] == "crate":
                cur = []
            elif segs[0] == "super":
                cur = module.split("::")[:-1] if module else []
            else:
                cur = module.split("::") if module else []
            for s in segs[1:]:
                if s == "super":
                    cur = cur[:-1]
                else:
                    cur.append(s)
            def walk(prefix_mod, text):
                for part in split_top(text):
                    part = part.strip()
                    if not part:
                        continue
                    mm = re.fullmatch(r"((?:\w+::)*)(\{.*\}|\w+)(?:\s+as\s+(\w+))?", part, re.S)
                    if not mm:
                        continue
                    pm = prefix_mod + [x for x in mm.group(1).split("::") if x]
                    if mm.group(2).startswith("{"):
                        walk(pm, mm.group(2)[1:-1])
                    else:
                        u[mm.group(3) or mm.group(2)] = ("::".join(pm), mm.group(2))
            walk(cur, tail[1:-1] if tail.startswith("{") else tail)
        uses[module] = u
    if g.untranslated:
        return None

    derived = [it for it in items if "Serialize" in it.derives or "Deserialize" in it.derives]
    bykey = {(it.module, it.name): it for it in derived}
    allmods = set(modsrc)

    def resolve(module, path):
        """type path as written in `module` -> (module, name) of a derived item / manual impl, or None"""
        segs = path.split("::")
        name = segs[-1]
        if len(segs) == 1:
            if (module, name) in bykey or (module, name) in MANUAL:
                return (module, name)
            if name in uses.get(module, {}):
                m2, n2 = uses[module][name]
                # re-exported through another module's `use`
                for _ in range(3):
                    if (m2, n2) in bykey or (m2, n2) in MANUAL:
                        return (m2, n2)
                    if n2 in uses.get(m2, {}):
                        m2, n2 = uses[m2][n2]
                return None
            return None
        q = segs[:-1]
        if q[0] == "crate":
            cand = "::".join(q[1:])
        elif q[0] == "super":
            cand = "::".join((module.split("::")[:-1] if module else []) + q[1:])
        else:
            first = q[0]
            if first in uses.get(module, {}):
                m2, n2 = uses[module][first]
                cand = "::".join([x for x in [m2, n2] if x] + q[1:])
            else:
                cand = "::".join(([module] if module else []) + q)
        if (cand, name) in bykey or (cand, name) in MANUAL:
            return (cand, name)
        return None

    schemas, reasons, deps = {}, {}, {}

    def ty(module, t, as_=None, deplist=None):
        t = t.strip()
        if as_ is not None:
            if as_ != "serde_with::hex::Hex":
                raise Uncovered(f"serde_as {as_}")
            if t == "Bytes" or t == "Vec<u8>":
                return {"k": "hex", "len": None}
            m = re.fullmatch(r"\[u8;\s*(\d+)\]", t)
            if m:
                return {"k": "hex", "len": int(m.group(1))}
            raise Uncovered(f"Hex on {t}")
        if t in ("String",):
            return {"k": "str"}
        if t == "bool":
            return {"k": "bool"}
        if t in INT:
            return {"k": "int", "lo": INT[t][0], "hi": INT[t][1]}
        if t in ("f32", "f64"):
            return {"k": "flt", "w": t}
        if t in ("Value", "serde_json::Value"):
            return {"k": "any"}
        m = re.fullmatch(r"Option<(.+)>", t)
        if m:
            return {"k": "opt", "s": ty(module, m.group(1), None, deplist)}
        m = re.fullmatch(r"Vec<(.+)>", t)
        if m:
            return {"k": "seq", "s": ty(module, m.group(1), None, deplist), "len": None}
        m = re.fullmatch(r"Box<(.+)>", t)
        if m:
            return ty(module, m.group(1), None, deplist)
        m = re.fullmatch(r"\[(.+);\s*(\d+)\]", t)
        if m:
            return {"k": "seq", "s": ty(module, m.group(1), None, deplist), "len": int(m.group(2))}
        m = re.fullmatch(r"HashMap<String,\s*(Value|serde_json::Value)>", t)
        if m:
            return {"k": "map"}
        if re.fullmatch(r"[\w:]+", t):
            r = resolve(module, t)
            if r is None:
                raise Uncovered(f"field type `{t}` is not a derived type of qevent")
            deplist.append(r)
            return {"k": "ref", "name": key_name(r)}
        raise Uncovered(f"field type `{t}`")

    def key_name(k):
        return (k[0] + "::" if k[0] else "") + k[1]

    def fields_schema(module, fields, cargs, rule):
        out = []
        deplist = []
        for idx, (attrs, fname, ftype) in enumerate(fields):
            fa = parse_serde_args(attrs)
            bad = set(fa) - FIELD_OK
            if bad:
                raise Uncovered(f"field attribute {sorted(bad)} on `{fname}`")
            name = fa.get("rename") or rename_field(fname, rule)
            if fa.get("flatten"):
                s = ty(module, ftype, fa.get("as"), deplist)
                if s["k"] == "map":
                    if idx != len(fields) - 1:
                        raise Uncovered("flattened map is not the last field")
                    if fa.get("skip_serializing_if") not in (None, "HashMap::is_empty"):
                        raise Uncovered("flatten map with skip_serializing_if " + str(fa.get("skip_serializing_if")))
                    out.append({"name": name, "kind": "rest", "s": s})
                else:
                    if fa.get("skip_serializing_if"):
                        raise Uncovered("flatten with skip_serializing_if")
                    out.append({"name": name, "kind": "flat", "s": s})
                continue
            mopt = re.fullmatch(r"Option<(.+)>", ftype)
            sk = fa.get("skip_serializing_if")
            if mopt and not fa.get("as"):
                inner = ty(module, mopt.group(1), None, deplist)
                if sk not in (None, "Option::is_none"):
                    raise Uncovered(f"skip_serializing_if = {sk} on Option")
                skipped = (cargs.get("skip_none") and not fa.get("serialize_always")) or sk == "Option::is_none"
                out.append({"name": name, "kind": "opt" if skipped else "optNull", "s": inner})
                continue
            s = ty(module, ftype, fa.get("as"), deplist)
            if sk is not None:
                if sk not in ("Vec::is_empty", "HashMap::is_empty"):
                    raise Uncovered(f"skip_serializing_if = {sk}")
                has_default = bool(fa.get("default")) or bool(cargs.get("default"))
                if fa.get("default") not in (None, True) or cargs.get("default") not in (None, True):
                    raise Uncovered("default = path")
                out.append({"name": name, "kind": "skipEmpty", "dflt": has_default, "s": s})
            else:
                # `default` / `default = "path"` on an always-serialised field only matters when the key is missing
                out.append({"name": name, "kind": "req", "s": s})
        return out, deplist

    def struct_schema(fl):
        rest = bool(fl) and fl[-1]["kind"] == "rest"
        return {"k": "struct", "fields": fl[:-1] if rest else fl, "rest": rest}

    for it in derived:
        key = (it.module, it.name)
        try:
            if it.nested and it.name == "Helper":
                raise Uncovered("helper inside a hand-written impl (covered through the MANUAL table if its shape is recognised)")
            if not ("Serialize" in it.derives and "Deserialize" in it.derives):
                raise Uncovered("derives only one of Serialize / Deserialize")
            if it.generics:
                raise Uncovered("generic type")
            ca = parse_serde_args(it.attrs)
            bad = set(ca) - CONTAINER_OK
            if bad:
                raise Uncovered(f"container attribute {sorted(bad)}")
            rule = ca.get("rename_all")
            if ca.get("try_from") and not (it.kind == "struct" and it.body is not None):
                raise Uncovered("try_from on an enum / tuple struct")
            if it.kind == "struct":
                if ca.get("tag") or ca.get("untagged") or ca.get("content"):
                    raise Uncovered("tag on struct")
                if it.tuple_body is not None:
                    parts = split_top(it.tuple_body)
                    if len(parts) != 1:
                        raise Uncovered("tuple struct with several fields")
                    attrs, j = read_attrs(parts[0], 0)
                    fa = parse_serde_args(attrs)
                    t = re.sub(r"^pub(\([^)]*\))?\s+", "", parts[0][j:].strip())
                    dl = []
                    schemas[key] = ty(it.module, t, fa.get("as"), dl)
                    deps[key] = dl
                elif it.body is not None:
                    if ca.get("transparent"):
                        raise Uncovered("transparent struct with named fields")
                    fl, dl = fields_schema(it.module, parse_named_fields(it.body), ca, rule)
                    schemas[key] = struct_schema(fl)
                    deps[key] = dl
                    if ca.get("try_from"):
                        tf = TRY_FROM.get(key)
                        if not tf or tf[0] != ca["try_from"]:
                            raise Uncovered("try_from = " + str(ca["try_from"]) + " (validation not in the table)")
                        u = bykey.get((it.module, tf[0]))
                        flat = " ".join(modsrc[it.module].split())
                        if u is None or u.body is None or [(n, t) for _, n, t in parse_named_fields(u.body)] != [(n, t) for _, n, t in parse_named_fields(it.body)] \
                           or not all(re.search(rx, flat) for rx in tf[1]):
                            raise Uncovered("try_from: intermediate type or validation left the recognised shape")
                        schemas[key] = {"k": "refine", "s": schemas[key], "guard": tf[2], "lean": tf[3]}
                else:
                    raise Uncovered("unit struct")
            else:
                variants = []
                for part in split_top(it.body):
                    if not part:
                        continue
                    attrs, j = read_attrs(part, 0)
                    va = parse_serde_args(attrs)
                    badv = set(va) - VARIANT_OK - {"default"}
                    if badv:
                        raise Uncovered(f"variant attribute {sorted(badv)}")
                    rest = part[j:].strip()
                    m = re.fullmatch(r"(\w+)\s*(\(.*\)|\{.*\})?\s*(=\s*[\w\s]+)?", rest, re.S)
                    if not m:
                        raise ValueError(f"cannot parse variant `{rest[:60]}` of {it.name}")
                    variants.append((va, m.group(1), m.group(2)))
                dl = []
                def vname(va, n):
                    return va.get("rename") or rename_variant(n, rule)
                def newtype(payload):
                    parts = split_top(payload[1:-1])
                    if len(parts) != 1:
                        raise Uncovered("tuple variant with several fields")
                    return ty(it.module, parts[0], None, dl)
                if ca.get("untagged"):
                    alts = []
                    for va, n, payload in variants:
                        if not payload or payload.startswith("{"):
                            raise Uncovered("untagged enum with a unit / struct variant")
                        alts.append({"name": n, "s": newtype(payload)})
                    schemas[key] = {"k": "untagged", "alts": alts}
                elif ca.get("tag") and ca.get("content"):
                    alts = []
                    for va, n, payload in variants:
                        if not payload or payload.startswith("{") or va.get("untagged"):
                            raise Uncovered("adjacently tagged enum with a unit / struct / untagged variant")
                        alts.append({"name": vname(va, n), "s": newtype(payload)})
                    schemas[key] = {"k": "adjacent", "tag": ca["tag"], "content": ca["content"], "alts": alts}
                elif ca.get("tag"):
                    alts = []
                    for va, n, payload in variants:
                        if va.get("untagged"):
                            raise Uncovered("internally tagged enum with an untagged variant")
                        if payload and payload.startswith("{"):
                            # rename_all on an enum renames variants only; fields keep their names
                            fl, d2 = fields_schema(it.module, parse_named_fields(payload[1:-1]), ca, None)
                            dl += d2
                            alts.append({"name": vname(va, n), "s": struct_schema(fl)})
                        elif payload:
                            alts.append({"name": vname(va, n), "s": newtype(payload)})
                        else:
                            alts.append({"name": vname(va, n), "s": {"k": "struct", "fields": [], "rest": False}})
                    schemas[key] = {"k": "internal", "tag": ca["tag"], "alts": alts}
                else:
                    units = [(va, n) for va, n, p in variants if not p and not va.get("untagged")]
                    tail = [(va, n, p) for va, n, p in variants if va.get("untagged")]
                    other = [n for va, n, p in variants if p and not va.get("untagged")]
                    if other:
                        raise Uncovered("externally tagged enum with data variants (" + ", ".join(other[:3]) + ")")
                    if variants[:len(units)] != [(va, n, None) for va, n in units]:
                        raise Uncovered("untagged variant before a tagged one")
                    ue = {"k": "unitEnum", "names": [vname(va, n) for va, n in units]}
                    if tail:
                        alts = [{"name": "", "s": ue}]
                        for va, n, p in tail:
                            if not p or p.startswith("{"):
                                raise Uncovered("untagged unit / struct variant")
                            alts.append({"name": n, "s": newtype(p)})
                        schemas[key] = {"k": "untagged", "alts": alts}
                    else:
                        schemas[key] = ue
                deps[key] = dl
        except Uncovered as ex:
            reasons[key] = str(ex)
        except Exception as ex:
            g.untranslated.append(f"{it.file}: {it.name}: {type(ex).__name__}: {ex}")
    for key, (pats, sch, note) in MANUAL.items():
        src = modsrc.get(key[0], "")
        if all(re.search(p, " ".join(src.split())) or re.search(p, src) for p in pats):
            schemas[key] = sch; deps[key] = []
        else:
            reasons[key] = "hand-written impl left the recognised shape"
    if g.untranslated:
        return None
    # propagate uncovered through dependencies; topological order
    changed = True
    while changed:
        changed = False
        for key in list(schemas):
            for d in deps[key]:
                if d not in schemas:
                    reasons[key] = f"depends on uncovered {key_name(d)}" + (f" ({reasons[d]})" if d in reasons else "")
                    del schemas[key]; changed = True
                    break
    order, seen = [], {}
    def visit(k, stack=()):
        if k in seen:
            if seen[k] == 1:
                raise Uncovered("recursive type " + key_name(k))
            return
        seen[k] = 1
        for d in deps[k]:
            visit(d, stack + (k,))
        seen[k] = 2; order.append(k)
    for k in sorted(schemas):
        visit(k)

    def lname(k):
        return "T_" + (k[0].replace("::", "_") + "_" if k[0] else "") + k[1]

    def lstr(s):
        return '"' + s.replace("\\", "\\\\").replace('"', '\\"') + '"'

    def lean(s):
        k = s["k"]
        if k == "ref":
            mod, _, nm = s["name"].rpartition("::")
            return lname((mod, nm))
        if k in ("bool", "flt", "str", "any", "map"):
            return "." + k
        if k == "int":
            return f"(.int ({s['lo']}) ({s['hi']}))"
        if k == "hex":
            return "(.hex " + lstr(s.get("pfx", "")) + " " + ("none" if s["len"] is None else f"(some {s['len']})") + ")"
        if k == "opt":
            return f"(.opt {lean(s['s'])})"
        if k == "seq":
            return f"(.seq {lean(s['s'])} " + ("none" if s["len"] is None else f"(some {s['len']})") + ")"
        if k == "struct":
            return f"(.struct {lfields(s['fields'])} {'true' if s['rest'] else 'false'})"
        if k == "unitEnum":
            return "(.unitEnum [" + ", ".join(lstr(n) for n in s["names"]) + "])"
        if k == "untagged":
            return f"(.untagged {lalts(s['alts'])})"
        if k == "adjacent":
            return f"(.adjacent {lstr(s['tag'])} {lstr(s['content'])} {lalts(s['alts'])})"
        if k == "internal":
            return f"(.internal {lstr(s['tag'])} {lalts(s['alts'])})"
        if k == "refine":
            return f"(.refine {lean(s['s'])}\n    {s['lean']})"
        raise ValueError(k)

    def lfields(fl):
        out = ".nil"
        for f in reversed(fl):
            kind = {"req": ".req", "opt": ".opt", "optNull": ".optNull", "flat": ".flat"}.get(f["kind"]) or f"(.skipEmpty {'true' if f['dflt'] else 'false'})"
            out = f"(.cons {lstr(f['name'])} {kind} {lean(f['s'])}\n      {out})"
        return out

    def lalts(al):
        out = ".nil"
        for a in reversed(al):
            out = f"(.cons {lstr(a['name'])} .req {lean(a['s'])}\n      {out})"
        return out

    lines = lean_header("GmQuic.Gen.QEvent")
    lines[0:0] = ["import GmQuic.Model.Json"]
    lines.insert(3, "open GmQuic.Model.Json")
    lines.append(f"/-- derive(Serialize|Deserialize) items found in qevent/src/** -/\ndef totalDerived : Nat := {len(derived)}")
    lines.append(f"def coveredCount : Nat := {len(order)}")
    lines.append(f"def uncoveredCount : Nat := {len(derived) + len([k for k in MANUAL if k not in bykey]) - len(order)}")
    lines.append("")
    for k in order:
        it = bykey.get(k)
        lines.append(f"/-- {it.file if it else 'hand-written impl'}: {k[1]} -/")
        lines.append(f"def {lname(k)} : Schema :=\n  {lean(schemas[k])}")
    lines.append("")
    lines.append("def covered : List (String × Schema) := [")
    lines.append(",\n".join(f"  ({lstr(key_name(k))}, {lname(k)})" for k in order))
    lines.append("]")
    lines.append("")
    lines.append("/-- derived types outside the translated fragment, with the reason -/")
    lines.append("def uncovered : List (String × String) := [")
    lines.append(",\n".join(f"  ({lstr(key_name(k))}, {lstr(reasons[k])})" for k in sorted(reasons)))
    lines.append("]")
    ev = ("", "Event")
    lines.append("")
    lines.append("/-- the envelope every `event!` emits (qevent/src/lib.rs `struct Event`) -/")
    lines.append(f"def eventSchema : Schema := {lname(ev) if ev in schemas else '.bool'}")
    lines += ["", "end GmQuic.Gen.QEvent", ""]
    g.extra_items = [f"covered {len(order)} / derived {len(derived)}"]
    side = {"types": {key_name(k): schemas[k] for k in order}, "order": [key_name(k) for k in order],
            "uncovered": {key_name(k): reasons[k] for k in sorted(reasons)}, "total_derived": len(derived)}
    os.makedirs(os.path.join(ROOT, ".build"), exist_ok=True)
    with open(os.path.join(ROOT, ".build", "c20_schema.json"), "w") as f:
        json.dump(side, f, indent=1)
    # dispatch table for harness20 (type name -> monomorphic probe); rewritten only when it changes
    rs = ["// GENERATED by xlate/gen_qevent.py from qevent/src/** (covered derived types).  Do not edit.",
          "pub fn probe(name: &str, json: &str) -> Option<super::Probe> {", "    Some(match name {"]
    for k in order:
        if k in MANUAL and k not in bykey:
            pass
        path = "qevent::" + (k[0] + "::" if k[0] else "") + k[1]
        rs.append(f'        "{key_name(k)}" => super::probe::<{path}>(json),')
    rs += ["        _ => return None,", "    })", "}", ""]
    from xlate import write_if_changed
    hdir = os.path.join(ROOT, "harness20", "src")
    if os.path.isdir(hdir):
        write_if_changed(os.path.join(hdir, "c20types.rs"), "\n".join(rs))
    return "\n".join(lines)
